#!/usr/bin/env python3
"""Regenerates /verif/MANIFEST.json from the table below (keeps it valid at all times)."""
import json, subprocess
props = {l['id']: l for l in map(json.loads, open('/verif/properties.jsonl'))}

# property -> (technique, level text, level note, design ref)
claimed = {
 'C04': ("contract-based deductive verification: ghost-state protocol contract on DB.Transaction (panic edges, defers) over go/ssa, SMT-discharged",
         "Proof of the block-runner protocol: on every normal and panic exit of the real DB.Transaction exactly one of Commit/Rollback (outer) or RollbackTo the same save point (nested) happens as the property demands; Begin/Commit/Rollback bodies and database/sql atomicity are assumed.",
         "database/sql makes Commit/Rollback atomic and returns the connection; only fc may panic; dialect SavePoint/RollbackTo do what they say", "4/C04"),
 'C06': ("contract-based deductive verification: frame (modifies) obligations on every MergeClause implementation, SMT-discharged, counterexamples replayed",
         "Proof that no clause-merging implementation in /repo writes memory that existed before the call (in-place append into shared backing arrays included).",
         "plugin clause types outside /repo respect the same interface contract", "4/C06"),
 'C15': ("contract-based deductive verification: functional contract of clause.Limit.MergeClause (merge rules of the property) over go/ssa, SMT-discharged",
         "Proof, for all inputs, that later positive Limit/Offset values override and negative values cancel, as the property states.",
         "SQL engine semantics of LIMIT/OFFSET; other read paths not yet under contract", "4/C15"),
}
na_reason = {
 'C07': "quantifies over goroutine schedules and data races; sequential contracts cannot decide it (DESIGN.md section 5)",
 'C12': "oracle is the database content after a history of association operations driven by reflection; not expressible in contracts within reach (DESIGN.md section 5)",
}
m = {
 "version": 1,
 "setup_cmd": "cd /verif/engine && GOFLAGS=-mod=vendor GOPROXY=off GOSUMDB=off GOTOOLCHAIN=local go build -o /verif/bin/gvc .",
 "hooks": {
  "guard": "verif",
  "enable": "contract files /repo/**/zz_contracts_verif.go carry '//go:build verif' and contain only //@ comment lines; gvc loads /repo with -tags verif",
  "baseline_off_cmd": "cd /repo && GOFLAGS=-mod=mod GOPROXY=off GOSUMDB=off go test -vet=off -count=1 ./... && cd /repo/tests && GOFLAGS=-mod=mod GOPROXY=off GOSUMDB=off go test -vet=off -count=1 ./...",
  "source_commits": [],
  "add_only": True
 },
 "engines": [{"name": "gvc", "path": "/verif/engine", "serves_properties": sorted(claimed), "kind_free_text": "verification-condition generator for Go (go/ssa -> SMT-LIB, contracts as //@ comments), discharged by z3 4.8.12 / z3 5.1.0 / cvc5"}],
 "checks": [],
 "notes": "see DESIGN.md; known findings in /verif/known_findings.txt",
 "not_applicable": []
}
try:
    hooks = subprocess.run(['git','-C','/repo','log','--format=%h %s','--grep=^hook:'],capture_output=True,text=True).stdout.strip().splitlines()
    m['hooks']['source_commits'] = [h.split()[0] for h in hooks]
except Exception: pass
for pid in sorted(props):
    if pid in claimed:
        tech, text, note, ref = claimed[pid]
        m['checks'].append({
          "property_id": pid,
          "quick_cmd": f"/verif/bin/gvc check {pid} --tier quick",
          "thorough_cmd": f"/verif/bin/gvc check {pid} --tier thorough",
          "evidence_file": f"/verif/evidence/{pid}.json",
          "replay_cmd_template": "/verif/bin/gvc replay {path}",
          "engine": "gvc",
          "level_claimed": {"category": "proof", "text": text, "design_ref": ref},
          "level_note": note,
          "technique": tech})
    else:
        m['not_applicable'].append({"property_id": pid, "reason": na_reason.get(pid, "check not built yet (work in progress)")})
json.dump(m, open('/verif/MANIFEST.json','w'), indent=1)
print("checks:", [c['property_id'] for c in m['checks']])
