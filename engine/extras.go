package main

import (
	"encoding/json"
	"fmt"
	"os"
	"os/exec"
	"path/filepath"
	"regexp"
	"strconv"
	"strings"
	"time"
)

// ---------- extras: stand-alone lemmas (solver string theory) and bounded stand-ins (K5) ----------
type extraItem struct {
	Name      string
	Statement string
	OK        bool
	Result    string
	Backend   string
	Ms        int64
	Witness   string
	Bounded   bool
	Bound     string
	Cases     int
}

type extraResult struct {
	items       []*extraItem
	problems    []string
	assumptions []string
	paper       string
}

// boundedSpec: a K5 stand-in — the REAL functions are driven exhaustively over a stated finite
// domain by a Go test injected with `go test -overlay`. Always labelled bounded, never counted as proved.
type boundedSpec struct {
	prop      string
	name      string
	harness   string // file under /verif/harness
	pkgDir    string // package directory relative to /repo
	run       string
	statement string
	quick     string
	thorough  string
}

var boundedSpecs = []boundedSpec{
	{prop: "C15", name: "C15#bounded#batches-equal-find", harness: "c15_bounded_test.go.txt", pkgDir: "tests", run: "TestGvcBoundedC15$",
		statement: "on the SQLite database of the test module, for every table size 0..bound, batch size 1..bound+1, limit and offset in {absent, -1, 0..bound+1} and four condition shapes (none, one Where, Where.Or, Where.Or.Where): FindInBatches delivers exactly the rows the same chain's Find returns in primary-key order, once each, in order, in batches no larger than requested, and reports their number in RowsAffected",
		quick: "4", thorough: "6"},
	{prop: "C17", name: "C17#bounded#registration-sequences", harness: "c17_bounded_test.go.txt", pkgDir: "", run: "TestGvcBoundedC17$",
		statement: "for every sequence of Register / Before(x).Register / After(x).Register / Before(x).After(y).Register / Replace / Remove up to the bound over 4 built-in names, 2 new names and 1 unknown name (also Before(\"*\") / After(\"*\"), a removed built-in registered again, and four fixed longer sequences with dormant constraints): an error is returned, or every registered non-removed callback runs exactly once, on the requested side of the callback it names, built-ins keep their relative order, Replace keeps the position, a callback placed relative to \"*\" runs before / after every unconstrained one (unless something was placed relative to it)",
		quick: "2", thorough: "3"},
	{prop: "C11", name: "C11#bounded#identity-key-injective", harness: "c11_bounded_test.go.txt", pkgDir: "utils", run: "TestGvcBoundedC11$",
		statement: "for all tuples of arity 1..bound over key parts {\"\", a, b, _, a_b, b_, _a, nil(text), \\, a\\, \\_, 1, 2, 12, nil, uint 1, []byte a_, \"1\", \"1_2\"}: different tuples (parts compared by their text, nil apart) get different identity keys from the real ToStringKey",
		quick: "2", thorough: "3"},
	{prop: "C02", name: "C02#bounded#raw-condition-grouping", harness: "c02_bounded_test.go.txt", pkgDir: "clause", run: "TestGvcBoundedC02$",
		statement: "for every raw condition built from atoms p,q joined by AND/OR in mixed case with space/tab/newline delimiters (up to the bound), used as a Where/Or/Not unit, inside a group, and under Not together with a map-style Eq condition: the text rendered by the real Build methods, evaluated with SQL precedence, equals the intended left-to-right combination of indivisible units for all 16 truth assignments",
		quick: "2", thorough: "3"},
	{prop: "C08", name: "C08#bounded#raw-condition-grouping", harness: "c02_bounded_test.go.txt", pkgDir: "clause", run: "TestGvcBoundedC02$",
		statement: "(the soft-delete filter is ANDed to the user conditions: the grouping lemma of C02 is what keeps marked rows out) for every raw condition built from atoms p,q joined by AND/OR in mixed case with space/tab/newline delimiters (up to the bound), used as a Where/Or/Not unit, inside a group, and under Not together with a map-style Eq condition: the text rendered by the real Build methods, evaluated with SQL precedence, equals the intended left-to-right combination of indivisible units for all 16 truth assignments",
		quick: "2", thorough: "3"},
}

var casesRe = regexp.MustCompile(`GVC-CASES (\d+)`)

func runBounded(e *Engine, b boundedSpec, tier string) *extraItem {
	t0 := time.Now()
	bound := b.quick
	if tier == "thorough" {
		bound = b.thorough
	}
	it := &extraItem{Name: b.name, Statement: b.statement, Bounded: true, Bound: "bound = " + bound, Backend: "go test (real code)"}
	src, err := os.ReadFile(filepath.Join(e.verif, "harness", b.harness))
	if err != nil {
		it.Result = "harness missing: " + err.Error()
		return it
	}
	tmp, _ := os.MkdirTemp("", "gvc-k5")
	defer os.RemoveAll(tmp)
	file := "zz_gvc_k5_test.go"
	os.WriteFile(filepath.Join(tmp, file), src, 0o644)
	ov, _ := json.Marshal(map[string]map[string]string{"Replace": {filepath.Join(e.repo, b.pkgDir, file): filepath.Join(tmp, file)}})
	os.WriteFile(filepath.Join(tmp, "ov.json"), ov, 0o644)
	cmd := exec.Command("go", "test", "-v", "-overlay", filepath.Join(tmp, "ov.json"), "-vet=off", "-count=1", "-timeout", "600s", "-run", b.run, ".")
	cmd.Dir = filepath.Join(e.repo, b.pkgDir)
	cmd.Env = append(os.Environ(), "GOFLAGS=-mod=mod", "GOPROXY=off", "GOSUMDB=off", "GOTOOLCHAIN=local", "TMPDIR="+tmp, "GVC_BOUND="+bound)
	out, rerr := cmd.CombinedOutput()
	text := string(out)
	it.Ms = time.Since(t0).Milliseconds()
	if m := casesRe.FindStringSubmatch(text); m != nil {
		it.Cases, _ = strconv.Atoi(m[1])
	}
	var bad []string
	for _, l := range strings.Split(text, "\n") {
		if strings.Contains(l, "GVC-VIOLATION") || strings.HasPrefix(l, "fatal error") || strings.HasPrefix(l, "panic:") {
			bad = append(bad, strings.TrimSpace(l))
		}
	}
	switch {
	case rerr == nil && it.Cases > 0 && len(bad) == 0:
		it.OK, it.Result = true, fmt.Sprintf("all %d cases hold", it.Cases)
	case len(bad) > 0:
		it.Result = "violated"
		if len(bad) > 8 {
			bad = bad[:8]
		}
		it.Witness = strings.Join(bad, "\n")
	default:
		it.Result = "harness did not run: " + truncate(text, 600)
	}
	return it
}

func runExtras(e *Engine, prop, tier, verif string) *extraResult {
	r := &extraResult{}
	r.paper = paperArguments[prop]
	for _, b := range boundedSpecs {
		if b.prop == prop {
			it := runBounded(e, b, tier)
			r.items = append(r.items, it)
			if !it.OK && it.Witness == "" {
				r.problems = append(r.problems, it.Name+": "+it.Result)
			}
		}
	}
	for _, l := range lemmaSpecs {
		if l.prop == prop {
			r.items = append(r.items, runLemma(e, l, tier))
		}
	}
	return r
}

// ---------- stand-alone lemmas over the solver's string theory ----------
type lemmaSpec struct {
	prop      string
	name      string
	statement string
	smt       string // must be unsat for the lemma to hold
}

var lemmaSpecs []lemmaSpec

func runLemma(e *Engine, l lemmaSpec, tier string) *extraItem {
	it := &extraItem{Name: l.name, Statement: l.statement}
	tmp, _ := os.MkdirTemp("", "gvc-lemma")
	defer os.RemoveAll(tmp)
	f := filepath.Join(tmp, "lemma.smt2")
	os.WriteFile(f, []byte(l.smt+"\n(check-sat)\n(get-model)\n"), 0o644)
	for _, s := range solvers[:2] {
		r, text, ms := runSolver(s, f, 30)
		it.Ms += ms
		it.Backend = s.name
		if r == "unsat" {
			it.OK, it.Result = true, "unsat"
			return it
		}
		if r == "sat" {
			it.Result, it.Witness = "sat", truncate(text, 1500)
			return it
		}
		it.Result = r
	}
	return it
}

var paperArguments = map[string]string{}
