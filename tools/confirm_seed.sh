#!/bin/bash
# usage: confirm_seed.sh <prop> <k>   confirms a sub-agent's change in a scratch worktree of /repo HEAD and,
# if everything holds (suite passes with change, demo fails with change, demo passes without), keeps it under /verif/seeded/<prop>-<k>/
set -u
id=$1; k=$2; SRC=${SRC:-/tmp/seed/out}; OUTK=${OUTK:-$k}
src=$SRC/$id
out=/verif/seeded/$id-$OUTK
wt=/tmp/confirm-$id-$OUTK
export GOFLAGS=-mod=mod GOPROXY=off GOSUMDB=off GOTOOLCHAIN=local
mkdir -p $wt.tmp; export TMPDIR=$wt.tmp
cleanup() { git -C /repo worktree remove --force $wt 2>/dev/null; rm -rf $wt $wt.tmp; }
trap cleanup EXIT
git -C /repo worktree add -q --detach $wt HEAD || exit 3
cd $wt
demo_loc=$(python3 -c "import json;print(json.load(open('$src/meta$k.json'))['demo_location'])")
demo_cmd=$(python3 -c "import json;print(json.load(open('$src/meta$k.json'))['demo_run_cmd'])")
run_demo() { cp $src/demo${k}_test.go $wt/$demo_loc; (cd $wt && eval "$demo_cmd") > $wt.tmp/demo.log 2>&1; rc=$?; rm -f $wt/$demo_loc; return $rc; }
run_demo; base_rc=$?
if ! git apply $src/patch$k.diff 2>$wt.tmp/apply.log; then echo "$id-$k: patch does not apply to current HEAD"; cat $wt.tmp/apply.log | head -3; exit 2; fi
(cd $wt && go build ./... && go test -vet=off -count=1 ./... ) > $wt.tmp/suite1.log 2>&1; s1=$?
(cd $wt/tests && go test -vet=off -count=1 ./... ) > $wt.tmp/suite2.log 2>&1; s2=$?
run_demo; mut_rc=$?
echo "$id-$OUTK: demo_without_change_rc=$base_rc suite_root_rc=$s1 suite_tests_rc=$s2 demo_with_change_rc=$mut_rc"
if [ $base_rc -eq 0 ] && [ $s1 -eq 0 ] && [ $s2 -eq 0 ] && [ $mut_rc -ne 0 ]; then
  mkdir -p $out
  cp $src/patch$k.diff $out/patch.diff
  cp $src/demo${k}_test.go $out/$(basename $demo_loc)
  python3 - <<P
import json
m=json.load(open('$src/meta$k.json'))
m['confirmed']={'base_commit':'$(git -C /repo log --format=%h -1)','ran':['demo on unchanged tree: pass','git apply patch.diff','go test -vet=off -count=1 ./... (root module): pass','go test -vet=off -count=1 ./... (tests module, SQLite): pass','demo with change: FAIL','all in a scratch worktree with a private TMPDIR'],'demo_tail':open('$wt.tmp/demo.log').read()[-1500:]}
m['breaks_property']=m.get('property','$id')
json.dump(m,open('$out/meta.json','w'),indent=1)
P
  echo "   kept in $out"
else
  tail -5 $wt.tmp/demo.log
fi
