package main

import (
	"fmt"
	"os"
	"runtime/debug"
	"go/ast"
	"go/constant"
	"go/token"
	"go/types"
	"strconv"
	"strings"

	"golang.org/x/tools/go/ssa"
)

// ---------- evaluation of contract expressions ----------
// Contract expressions are Go expressions (parsed by go/parser) evaluated directly over the
// symbolic state, with types taken from go/types. Extra forms: old(e), fresh(x), forall(i, lo,
// hi, body), exists(...), ite(c,a,b), is(x, T), a ==> b, spec functions, ghost names.

type TV struct {
	v Val
	t types.Type
}

type specError struct{ msg string }

func specErr(format string, a ...interface{}) {
	if os.Getenv("GVC_DEBUG") != "" {
		debug.PrintStack()
	}
	panic(specError{fmt.Sprintf(format, a...)})
}

type SpecEnv struct {
	vc        *VC
	st        *State
	old       *State
	vars      map[string]TV
	pkg       *types.Package
	act       *Act
	kind      string // requires ensures invariant site callsite event
	header    *ssa.BasicBlock
	allocBase string // objects with ref >= allocBase are "fresh"
	point     *ssa.BasicBlock // program point at which source names are resolved
	atEnd     bool
	strict    bool            // names resolve only to definitions that reach the point (defined())
	before    ssa.Instruction // clauses attached to an instruction (sites) see the variables as they are just before it
	inOld     bool
	depth     int
	bound     map[string]bool
}

func (vc *VC) specEnv(act *Act, st, old *State, kind string, header *ssa.BasicBlock) *SpecEnv {
	env := &SpecEnv{vc: vc, st: st, old: old, vars: map[string]TV{}, pkg: act.fn.Pkg.Pkg, act: act, kind: kind, header: header, allocBase: "alloc0"}
	env.point = header
	if header == nil {
		env.point, env.atEnd = act.curBlock, true
	}
	if act.fn.Pkg == nil {
		env.pkg = nil
	}
	root := act
	for root.parent != nil {
		root = root.parent
	}
	for a := act; a != nil; a = a.parent {
		for k, v := range a.lets {
			if _, ok := env.vars[k]; !ok {
				env.vars[k] = v
			}
		}
	}
	return env
}

func (vc *VC) evalBool(env *SpecEnv, c *Clause) (f string) {
	defer func() {
		if r := recover(); r != nil {
			if se, ok := r.(specError); ok {
				panic(specError{fmt.Sprintf("%s:%d: %s: %s", shortFile(c.File), c.Line, c.Text, se.msg)})
			}
			panic(r)
		}
	}()
	return env.evalBoolExpr(c.Expr)
}

func (env *SpecEnv) evalBoolExpr(e ast.Expr) string {
	tv := env.evalTV(e)
	iv, ok := tv.v.(IntV)
	if !ok {
		specErr("expression is not boolean")
	}
	return i2b(iv.t)
}

func (env *SpecEnv) withState(st *State) *SpecEnv {
	n := *env
	n.st = st
	return &n
}

func basicT(k types.BasicKind) types.Type { return types.Typ[k] }

func (env *SpecEnv) lookupName(name string) (TV, bool) {
	if tv, ok := env.vars[name]; ok {
		return tv, true
	}
	switch name {
	case "true":
		return TV{IntV{"1"}, basicT(types.Bool)}, true
	case "false":
		return TV{IntV{"0"}, basicT(types.Bool)}, true
	case "nil":
		return TV{nil, types.Typ[types.UntypedNil]}, true
	}
	if g, ok := env.st.ghost[name]; ok {
		return TV{IntV{g}, basicT(types.Int)}, true
	}
	for _, g := range env.vc.eng.contracts.Ghosts {
		if g == name {
			return TV{IntV{"0"}, basicT(types.Int)}, true
		}
	}
	if env.act != nil {
		if tv, ok := env.lookupInAct(name); ok {
			return tv, true
		}
	}
	// package-level objects
	if env.pkg != nil {
		if obj := env.pkg.Scope().Lookup(name); obj != nil {
			return env.objValue(obj)
		}
	}
	return TV{}, false
}

func (env *SpecEnv) objValue(obj types.Object) (TV, bool) {
	switch o := obj.(type) {
	case *types.Const:
		return env.constTV(o.Val(), o.Type()), true
	case *types.Var:
		if sp := env.vc.eng.prog.Package(o.Pkg()); sp != nil {
			if g, ok := sp.Members[o.Name()].(*ssa.Global); ok {
				p := PtrV{env.vc.eng.globalRef(env.vc, g), "0"}
				return TV{env.vc.load(env.st, p, o.Type()), o.Type()}, true
			}
		}
	case *types.Func:
		if sp := env.vc.eng.prog.Package(o.Pkg()); sp != nil {
			if f := sp.Func(o.Name()); f != nil {
				return TV{IntV{fmt.Sprint(env.vc.eng.funcID(f))}, o.Type()}, true
			}
		}
	}
	return TV{}, false
}

func (env *SpecEnv) constTV(v constant.Value, t types.Type) TV {
	switch v.Kind() {
	case constant.Bool:
		if constant.BoolVal(v) {
			return TV{IntV{"1"}, t}
		}
		return TV{IntV{"0"}, t}
	case constant.Int:
		i, _ := constant.Int64Val(v)
		return TV{IntV{num(i)}, t}
	case constant.String:
		return TV{IntV{env.vc.strLit(constant.StringVal(v))}, t}
	}
	specErr("unsupported constant %v", v)
	return TV{}
}

// lookupInAct resolves a source-level name inside the function being verified.
func (env *SpecEnv) lookupInAct(name string) (TV, bool) {
	act := env.act
	vc := env.vc
	paramFirst := (env.kind != "invariant" && env.kind != "site") || env.inOld
	tryParam := func() (TV, bool) {
		for a := act; a != nil; a = a.parent {
			for _, p := range a.fn.Params {
				if p.Name() == name {
					if v, ok := a.env[p]; ok {
						return TV{v, p.Type()}, true
					}
				}
			}
			for _, fv := range a.fn.FreeVars {
				if fv.Name() == name {
					if v, ok := a.env[fv]; ok {
						// free variables are pointers to the captured variable
						pt := fv.Type().(*types.Pointer)
						return TV{vc.load(env.st, v.(PtrV), pt.Elem()), pt.Elem()}, true
					}
				}
			}
		}
		return TV{}, false
	}
	tryLocal := func() (TV, bool) {
		// loop-header phis first
		if env.header != nil {
			for _, ins := range env.header.Instrs {
				phi, ok := ins.(*ssa.Phi)
				if !ok {
					break
				}
				if phi.Comment == name {
					if v, ok := act.env[phi]; ok {
						return TV{v, phi.Type()}, true
					}
				}
			}
			if name == "iter" {
				for _, ins := range env.header.Instrs {
					if phi, ok := ins.(*ssa.Phi); ok && phi.Comment == "rangeindex" {
						v := act.env[phi].(IntV)
						return TV{IntV{fmt.Sprintf("(+ %s 1)", v.t)}, basicT(types.Int)}, true
					}
				}
			}
		}
		for a := act; a != nil; a = a.parent {
			if nr, ok := a.names[name]; ok {
				if nr.cell {
					if p, ok := a.env[nr.val]; ok {
						et := nr.val.Type().(*types.Pointer).Elem()
						return TV{vc.load(env.st, p.(PtrV), et), et}, true
					}
					continue
				}
				val := nr.val
				if a == act {
					val = reaching(nr, env.point, env.atEnd, env.before, env.strict)
					if val == nil {
						continue
					}
				}
				if v, ok := a.env[val]; ok {
					return TV{v, val.Type()}, true
				}
			}
		}
		return TV{}, false
	}
	if paramFirst {
		if tv, ok := tryParam(); ok {
			return tv, true
		}
		return tryLocal()
	}
	if tv, ok := tryLocal(); ok {
		return tv, true
	}
	return tryParam()
}

func (env *SpecEnv) resolveType(e ast.Expr) types.Type {
	switch x := e.(type) {
	case *ast.Ident:
		if env.pkg != nil {
			if obj := env.pkg.Scope().Lookup(x.Name); obj != nil {
				if tn, ok := obj.(*types.TypeName); ok {
					return tn.Type()
				}
			}
		}
		if obj := types.Universe.Lookup(x.Name); obj != nil {
			if tn, ok := obj.(*types.TypeName); ok {
				return tn.Type()
			}
		}
	case *ast.SelectorExpr:
		if id, ok := x.X.(*ast.Ident); ok {
			if p := env.importedPkg(id.Name); p != nil {
				if obj := p.Scope().Lookup(x.Sel.Name); obj != nil {
					if tn, ok := obj.(*types.TypeName); ok {
						return tn.Type()
					}
				}
			}
		}
	case *ast.StarExpr:
		if t := env.resolveType(x.X); t != nil {
			return types.NewPointer(t)
		}
	case *ast.ArrayType:
		if x.Len == nil {
			if t := env.resolveType(x.Elt); t != nil {
				return types.NewSlice(t)
			}
		}
	case *ast.InterfaceType:
		return types.NewInterfaceType(nil, nil)
	case *ast.ParenExpr:
		return env.resolveType(x.X)
	}
	return nil
}

func (env *SpecEnv) importedPkg(name string) *types.Package {
	return env.vc.eng.findPackage(env.pkg, name)
}

func untypedInt(t types.Type) bool {
	b, ok := t.(*types.Basic)
	return ok && b.Info()&types.IsUntyped != 0
}

func (env *SpecEnv) evalTV(e ast.Expr) TV {
	vc := env.vc
	switch x := e.(type) {
	case *ast.ParenExpr:
		return env.evalTV(x.X)
	case *ast.BasicLit:
		switch x.Kind {
		case token.INT:
			n, err := strconv.ParseInt(x.Value, 0, 64)
			if err != nil {
				specErr("bad int literal %s", x.Value)
			}
			return TV{IntV{num(n)}, types.Typ[types.UntypedInt]}
		case token.STRING:
			s, _ := strconv.Unquote(x.Value)
			return TV{IntV{vc.strLit(s)}, basicT(types.String)}
		case token.CHAR:
			s, _ := strconv.Unquote(x.Value)
			return TV{IntV{fmt.Sprint(int(s[0]))}, types.Typ[types.UntypedRune]}
		}
		specErr("unsupported literal %s", x.Value)
	case *ast.Ident:
		if tv, ok := env.lookupName(x.Name); ok {
			return tv
		}
		specErr("unknown identifier %q", x.Name)
	case *ast.UnaryExpr:
		switch x.Op {
		case token.NOT:
			return TV{IntV{b2i(not(env.evalBoolExpr(x.X)))}, basicT(types.Bool)}
		case token.SUB:
			v := env.evalTV(x.X)
			return TV{IntV{fmt.Sprintf("(- 0 %s)", v.v.(IntV).t)}, v.t}
		case token.AND:
			p, off, _ := env.fieldAddr(x.X)
			t := env.typeOfExpr(x.X)
			return TV{PtrV{p.ref, add(p.idx, off)}, types.NewPointer(t)}
		}
		specErr("unsupported unary operator %s", x.Op)
	case *ast.StarExpr:
		v := env.evalTV(x.X)
		p, ok := v.v.(PtrV)
		if !ok {
			specErr("dereference of non-pointer")
		}
		et := v.t.Underlying().(*types.Pointer).Elem()
		return TV{vc.load(env.st, p, et), et}
	case *ast.BinaryExpr:
		return env.evalBinary(x)
	case *ast.SelectorExpr:
		return env.evalSelector(x)
	case *ast.IndexExpr:
		return env.evalIndex(x)
	case *ast.SliceExpr:
		b := env.evalTV(x.X)
		s, ok := b.v.(SliceV)
		if !ok {
			specErr("slice expression on non-slice")
		}
		lo, hi := "0", s.ln
		if x.Low != nil {
			lo = env.evalTV(x.Low).v.(IntV).t
		}
		if x.High != nil {
			hi = env.evalTV(x.High).v.(IntV).t
		}
		return TV{SliceV{s.ref, fmt.Sprintf("(+ %s %s)", s.off, lo), fmt.Sprintf("(- %s %s)", hi, lo), fmt.Sprintf("(- %s %s)", s.cp, lo)}, b.t}
	case *ast.TypeAssertExpr:
		v := env.evalTV(x.X)
		iv, ok := v.v.(IfaceV)
		if !ok {
			specErr("type assertion on non-interface")
		}
		t := env.resolveType(x.Type)
		if t == nil {
			specErr("unknown type in assertion")
		}
		if types.IsInterface(t) {
			return TV{iv, t}
		}
		return TV{vc.unbox(env.st, iv, t), t}
	case *ast.CallExpr:
		return env.evalCall(x)
	case *ast.CompositeLit:
		t := env.resolveType(x.Type)
		if t == nil {
			specErr("unknown type in composite literal")
		}
		st, ok := t.Underlying().(*types.Struct)
		if !ok {
			specErr("only struct literals are supported in contracts")
		}
		sv := zeroVal(t).(StructV)
		for _, el := range x.Elts {
			kv, ok := el.(*ast.KeyValueExpr)
			if !ok {
				specErr("struct literals need field names")
			}
			name := kv.Key.(*ast.Ident).Name
			found := false
			for i := 0; i < st.NumFields(); i++ {
				if st.Field(i).Name() == name {
					fv := env.coerce(env.evalTV(kv.Value), st.Field(i).Type())
					sv.f[i] = fv.v
					found = true
				}
			}
			if !found {
				specErr("no field %s in %v", name, t)
			}
		}
		return TV{sv, t}
	}
	specErr("unsupported expression %T", e)
	return TV{}
}

func (env *SpecEnv) typeOfExpr(e ast.Expr) types.Type { return env.evalTV(e).t }

func derefStruct(t types.Type) (*types.Struct, bool, types.Type) {
	if p, ok := t.Underlying().(*types.Pointer); ok {
		if s, ok := p.Elem().Underlying().(*types.Struct); ok {
			return s, true, p.Elem()
		}
		return nil, true, nil
	}
	if s, ok := t.Underlying().(*types.Struct); ok {
		return s, false, t
	}
	return nil, false, nil
}

// fieldAddr resolves x.f (f reached through pointers) to the address of the field.
func (env *SpecEnv) fieldAddr(e ast.Expr) (PtrV, int, int) {
	p, off, w, _ := env.fieldAddrT(e)
	return p, off, w
}

// fieldAddrT also returns the static type of the object that holds the field.
func (env *SpecEnv) fieldAddrT(e ast.Expr) (PtrV, int, int, types.Type) {
	sel, ok := e.(*ast.SelectorExpr)
	if !ok {
		specErr("not a field selector")
	}
	base := env.evalTV(sel.X)
	obj, index := lookupField(base.t, env.pkgOrNil(), sel.Sel.Name)
	fv, ok := obj.(*types.Var)
	if !ok || !fv.IsField() {
		specErr("no field %s in %v", sel.Sel.Name, base.t)
	}
	cur := base
	for k, idx := range index {
		st, isPtr, _ := derefStruct(cur.t)
		if st == nil {
			specErr("selector through non-struct")
		}
		last := k == len(index)-1
		off := fieldOffset(st, idx)
		ft := st.Field(idx).Type()
		if isPtr {
			p := cur.v.(PtrV)
			if last {
				return PtrV{p.ref, p.idx}, off, width(ft), cur.t.Underlying().(*types.Pointer).Elem()
			}
			cur = TV{env.vc.load(env.st, PtrV{p.ref, add(p.idx, off)}, ft), ft}
		} else {
			if last {
				specErr("field of a struct value has no address")
			}
			cur = TV{cur.v.(StructV).f[idx], ft}
		}
	}
	specErr("empty selector path")
	return PtrV{}, 0, 0, nil
}

func (env *SpecEnv) pkgOrNil() *types.Package { return env.pkg }

func (env *SpecEnv) evalSelector(x *ast.SelectorExpr) TV {
	// package-qualified identifier
	if id, ok := x.X.(*ast.Ident); ok {
		if _, isVar := env.lookupName(id.Name); !isVar {
			if p := env.importedPkg(id.Name); p != nil {
				if obj := p.Scope().Lookup(x.Sel.Name); obj != nil {
					if tv, ok := env.objValue(obj); ok {
						return tv
					}
				}
				specErr("cannot evaluate %s.%s", id.Name, x.Sel.Name)
			}
		}
	}
	base := env.evalTV(x.X)
	if base.t == nil {
		specErr("selector on untyped value")
	}
	obj, index := lookupField(base.t, env.pkgOrNil(), x.Sel.Name)
	fv, ok := obj.(*types.Var)
	if !ok || !fv.IsField() {
		specErr("no field %s in %v", x.Sel.Name, base.t)
	}
	cur := base
	for _, idx := range index {
		st, isPtr, _ := derefStruct(cur.t)
		if st == nil {
			specErr("selector through non-struct %v", cur.t)
		}
		ft := st.Field(idx).Type()
		if isPtr {
			p := cur.v.(PtrV)
			env.vc.noteImmRef(cur.t.Underlying().(*types.Pointer).Elem(), fieldOffset(st, idx), p.ref)
			cur = TV{env.vc.load(env.st, PtrV{p.ref, add(p.idx, fieldOffset(st, idx))}, ft), ft}
		} else {
			cur = TV{cur.v.(StructV).f[idx], ft}
		}
	}
	return cur
}

func (env *SpecEnv) evalIndex(x *ast.IndexExpr) TV {
	base := env.evalTV(x.X)
	switch b := base.v.(type) {
	case SliceV:
		et := base.t.Underlying().(*types.Slice).Elem()
		idx := env.evalTV(x.Index).v.(IntV).t
		w := width(et)
		return TV{env.loadPure(PtrV{b.ref, env.vc.elemIdx(b.off, idx, w)}, et), et}
	case MapV:
		mt := base.t.Underlying().(*types.Map)
		k := env.evalTV(x.Index)
		key := env.vc.mapKey(env.st, env.coerce(k, mt.Key()).v, mt.Key())
		v, pres := env.mapLoadPure(b, key, mt.Elem())
		return TV{iteVal(pres, v, zeroVal(mt.Elem())), mt.Elem()}
	case StructV:
		if at, ok := base.t.Underlying().(*types.Array); ok {
			idx := env.evalTV(x.Index).v.(IntV).t
			if n, err := parseInt(idx); err == nil {
				return TV{b.f[n], at.Elem()}
			}
		}
	case PtrV:
		if at, ok := base.t.Underlying().(*types.Pointer).Elem().Underlying().(*types.Array); ok {
			idx := env.evalTV(x.Index).v.(IntV).t
			w := width(at.Elem())
			return TV{env.loadPure(PtrV{b.ref, fmt.Sprintf("(+ %s (* %s %d))", b.idx, idx, w)}, at.Elem()), at.Elem()}
		}
	}
	specErr("unsupported index expression")
	return TV{}
}

// loadPure loads without introducing named constants when inside a quantifier.
func (env *SpecEnv) loadPure(p PtrV, t types.Type) Val {
	if len(env.bound) == 0 || !env.vc.mentionsBound(p.ref+" "+p.idx) {
		return env.vc.load(env.st, p, t)
	}
	lay := layout(t)
	out := make([]string, len(lay))
	for k, kind := range lay {
		m := env.st.mi
		if kind == 'r' {
			m = env.st.mr
		}
		out[k] = env.vc.sel(m, p.ref, add(p.idx, k))
	}
	v, _ := unflatten(t, out)
	env.vc.assume(env.st, env.vc.wf(env.st, v, t))
	return v
}

func (env *SpecEnv) mapLoadPure(m MapV, key string, vt types.Type) (Val, string) {
	if len(env.bound) == 0 || !env.vc.mentionsBound(m.ref+" "+key) {
		return env.vc.mapLoad(env.st, m, key, vt)
	}
	w := width(vt) + 1
	base := env.vc.mapSlot(key, w)
	present := env.vc.sel(env.st.mi, m.ref, base)
	lay := layout(vt)
	leaves := make([]string, len(lay))
	for k, kind := range lay {
		mem := env.st.mi
		if kind == 'r' {
			mem = env.st.mr
		}
		leaves[k] = env.vc.sel(mem, m.ref, add(base, k+1))
	}
	v, _ := unflatten(vt, leaves)
	pres := and(not(eq(m.ref, "0")), eq(present, "1"))
	env.vc.assume(env.st, implies(pres, env.vc.wf(env.st, v, vt)))
	return v, pres
}

// coerce adapts untyped constants / nil to a target type.
func (env *SpecEnv) coerce(tv TV, to types.Type) TV {
	if tv.v == nil && to != nil {
		return TV{zeroVal(to), to}
	}
	if to != nil && types.IsInterface(to) && tv.t != nil && !types.IsInterface(tv.t) && tv.v != nil {
		if untypedInt(tv.t) {
			return tv
		}
		return TV{env.vc.makeIface(env.st, tv.v, tv.t), to}
	}
	return tv
}

func (env *SpecEnv) evalBinary(x *ast.BinaryExpr) TV {
	switch x.Op {
	case token.LAND:
		return TV{IntV{b2i(and(env.evalBoolExpr(x.X), env.evalBoolExpr(x.Y)))}, basicT(types.Bool)}
	case token.LOR:
		return TV{IntV{b2i(or(env.evalBoolExpr(x.X), env.evalBoolExpr(x.Y)))}, basicT(types.Bool)}
	}
	a, b := env.evalTV(x.X), env.evalTV(x.Y)
	if a.v == nil && b.v != nil {
		a = env.coerce(a, b.t)
	}
	if b.v == nil && a.v != nil {
		b = env.coerce(b, a.t)
	}
	if a.v == nil && b.v == nil {
		if x.Op == token.EQL {
			return TV{IntV{"1"}, basicT(types.Bool)}
		}
		return TV{IntV{"0"}, basicT(types.Bool)}
	}
	if a.t != nil && b.t != nil && types.IsInterface(a.t) != types.IsInterface(b.t) {
		if types.IsInterface(a.t) {
			b = env.coerce(b, a.t)
		} else {
			a = env.coerce(a, b.t)
		}
	}
	switch x.Op {
	case token.EQL, token.NEQ:
		var e string
		switch av := a.v.(type) {
		case SliceV:
			bv := b.v.(SliceV)
			e = and(eq(av.ref, bv.ref), eq(av.off, bv.off), eq(av.ln, bv.ln))
			if isZeroSlice(bv) {
				e = eq(av.ref, "0")
			} else if isZeroSlice(av) {
				e = eq(bv.ref, "0")
			}
		default:
			e = eqLeaves(a.v, b.v)
		}
		if x.Op == token.NEQ {
			e = not(e)
		}
		return TV{IntV{b2i(e)}, basicT(types.Bool)}
	}
	ai, ok1 := a.v.(IntV)
	bi, ok2 := b.v.(IntV)
	if !ok1 || !ok2 {
		specErr("arithmetic on non-scalar values")
	}
	rt := a.t
	if untypedInt(rt) {
		rt = b.t
	}
	switch x.Op {
	case token.ADD:
		return TV{IntV{fmt.Sprintf("(+ %s %s)", ai.t, bi.t)}, rt}
	case token.SUB:
		return TV{IntV{fmt.Sprintf("(- %s %s)", ai.t, bi.t)}, rt}
	case token.MUL:
		return TV{IntV{fmt.Sprintf("(* %s %s)", ai.t, bi.t)}, rt}
	case token.QUO:
		return TV{IntV{fmt.Sprintf("(div %s %s)", ai.t, bi.t)}, rt}
	case token.REM:
		return TV{IntV{fmt.Sprintf("(mod %s %s)", ai.t, bi.t)}, rt}
	case token.LSS:
		return TV{IntV{b2i(fmt.Sprintf("(< %s %s)", ai.t, bi.t))}, basicT(types.Bool)}
	case token.LEQ:
		return TV{IntV{b2i(fmt.Sprintf("(<= %s %s)", ai.t, bi.t))}, basicT(types.Bool)}
	case token.GTR:
		return TV{IntV{b2i(fmt.Sprintf("(> %s %s)", ai.t, bi.t))}, basicT(types.Bool)}
	case token.GEQ:
		return TV{IntV{b2i(fmt.Sprintf("(>= %s %s)", ai.t, bi.t))}, basicT(types.Bool)}
	}
	specErr("unsupported binary operator %s", x.Op)
	return TV{}
}

func isZeroSlice(s SliceV) bool { return s.ref == "0" && s.ln == "0" }

func (env *SpecEnv) evalCall(x *ast.CallExpr) TV {
	vc := env.vc
	name := ""
	switch f := x.Fun.(type) {
	case *ast.Ident:
		name = f.Name
	case *ast.SelectorExpr:
		if id, ok := f.X.(*ast.Ident); ok {
			name = id.Name + "." + f.Sel.Name
		}
	}
	boolTV := func(f string) TV { return TV{IntV{b2i(f)}, basicT(types.Bool)} }
	switch name {
	case "__imp":
		// a statically false antecedent (defined(name) of a variable that does not reach this point) makes the
		// implication true without evaluating a consequent that may name that variable
		ante := env.evalBoolExpr(x.Args[0])
		if ante == "false" {
			return boolTV("true")
		}
		return boolTV(implies(ante, env.evalBoolExpr(x.Args[1])))
	case "defined":
		// defined(name): a variable of that name is in scope (its definition reaches this point)
		id, ok := x.Args[0].(*ast.Ident)
		if !ok {
			specErr("defined(name)")
		}
		se := *env
		se.strict = true
		_, found := se.lookupInAct(id.Name)
		if found {
			return boolTV("true")
		}
		return boolTV("false")
	case "local":
		// local(name): the function's own variable of that name, even where a contract keyword
		// (result, arg0, ...) shadows it
		id, ok := x.Args[0].(*ast.Ident)
		if !ok {
			specErr("local(name)")
		}
		if tv, ok := env.lookupInAct(id.Name); ok {
			return tv
		}
		specErr("unknown local %q", id.Name)
	case "old":
		if env.old == nil {
			specErr("old() not available here")
		}
		oe := env.withState(env.old)
		oe.inOld = true // parameters denote their entry values (their cells do not exist in the entry state)
		return oe.evalTV(x.Args[0])
	case "len":
		v := env.evalTV(x.Args[0])
		switch a := v.v.(type) {
		case SliceV:
			return TV{IntV{a.ln}, basicT(types.Int)}
		case IntV:
			if len(env.bound) > 0 {
				return TV{IntV{fmt.Sprintf("(strlen %s)", a.t)}, basicT(types.Int)}
			}
			return TV{IntV{vc.strLen(env.st, a.t)}, basicT(types.Int)}
		case StructV:
			return TV{IntV{fmt.Sprint(len(a.f))}, basicT(types.Int)}
		}
		specErr("len of unsupported value")
	case "cap":
		v := env.evalTV(x.Args[0])
		if a, ok := v.v.(SliceV); ok {
			return TV{IntV{a.cp}, basicT(types.Int)}
		}
		specErr("cap of non-slice")
	case "fresh":
		v := env.evalTV(x.Args[0])
		return boolTV(fmt.Sprintf("(>= %s %s)", refOf(v.v), env.allocBase))
	case "allocated":
		v := env.evalTV(x.Args[0])
		return boolTV(fmt.Sprintf("(and (> %s 0) (< %s %s))", refOf(v.v), refOf(v.v), env.allocBase))
	case "ref":
		v := env.evalTV(x.Args[0])
		return TV{IntV{refOf(v.v)}, basicT(types.Int)}
	case "off":
		v := env.evalTV(x.Args[0])
		if s, ok := v.v.(SliceV); ok {
			return TV{IntV{s.off}, basicT(types.Int)}
		}
		if p, ok := v.v.(PtrV); ok {
			return TV{IntV{p.idx}, basicT(types.Int)}
		}
		specErr("off of non-slice")
	case "samearray":
		a, b := env.evalTV(x.Args[0]), env.evalTV(x.Args[1])
		return boolTV(eq(refOf(a.v), refOf(b.v)))
	case "ite":
		c := env.evalBoolExpr(x.Args[0])
		a, b := env.evalTV(x.Args[1]), env.evalTV(x.Args[2])
		if a.v == nil {
			a = env.coerce(a, b.t)
		}
		if b.v == nil {
			b = env.coerce(b, a.t)
		}
		t := a.t
		if untypedInt(t) {
			t = b.t
		}
		return TV{iteVal(c, a.v, b.v), t}
	case "is":
		v := env.evalTV(x.Args[0])
		iv, ok := v.v.(IfaceV)
		if !ok {
			specErr("is() on non-interface")
		}
		t := env.resolveType(x.Args[1])
		if t == nil {
			specErr("is(): unknown type")
		}
		if types.IsInterface(t) {
			return boolTV(and(not(eq(iv.tag, "0")), vc.implementsTerm(iv.tag, t)))
		}
		return boolTV(eq(iv.tag, fmt.Sprint(vc.tid(t))))
	case "tagof":
		v := env.evalTV(x.Args[0])
		if iv, ok := v.v.(IfaceV); ok {
			return TV{IntV{iv.tag}, basicT(types.Int)}
		}
		specErr("tagof on non-interface")
	case "boxof":
		v := env.evalTV(x.Args[0])
		if iv, ok := v.v.(IfaceV); ok {
			return TV{IntV{iv.box}, basicT(types.Int)}
		}
		specErr("boxof on non-interface")
	case "isnil":
		v := env.evalTV(x.Args[0])
		if v.v == nil {
			return boolTV("true")
		}
		return boolTV(eq(flatten(v.v)[0], "0"))
	case "has":
		m := env.evalTV(x.Args[0])
		mv, ok := m.v.(MapV)
		if !ok {
			specErr("has() on non-map")
		}
		mt := m.t.Underlying().(*types.Map)
		k := env.coerce(env.evalTV(x.Args[1]), mt.Key())
		_, pres := env.mapLoadPure(mv, vc.mapKey(env.st, k.v, mt.Key()), mt.Elem())
		return boolTV(pres)
	case "forall", "exists":
		id, ok := x.Args[0].(*ast.Ident)
		if !ok || len(x.Args) != 4 {
			specErr("%s(i, lo, hi, body)", name)
		}
		lo := env.evalTV(x.Args[1]).v.(IntV).t
		hi := env.evalTV(x.Args[2]).v.(IntV).t
		vc.ctr++
		bv := fmt.Sprintf("%s_q%d", id.Name, vc.ctr)
		sub := *env
		sub.vars = map[string]TV{}
		for k, v := range env.vars {
			sub.vars[k] = v
		}
		sub.vars[id.Name] = TV{IntV{bv}, basicT(types.Int)}
		sub.bound = map[string]bool{bv: true}
		for k := range env.bound {
			sub.bound[k] = true
		}
		vc.pure++
		vc.boundNames = append(vc.boundNames, bv)
		body := func() string {
			defer func() { vc.pure--; vc.boundNames = vc.boundNames[:len(vc.boundNames)-1] }()
			return vc.quantBody(name == "exists", func() string { return sub.evalBoolExpr(x.Args[3]) })
		}()
		rng := fmt.Sprintf("(and (<= %s %s) (< %s %s))", lo, bv, bv, hi)
		if name == "forall" {
			return boolTV(fmt.Sprintf("(forall ((%s Int)) (=> %s %s))", bv, rng, body))
		}
		return boolTV(fmt.Sprintf("(exists ((%s Int)) (and %s %s))", bv, rng, body))
	case "visited":
		// visited(k): key k was already delivered by the map iteration of the loop being annotated
		if env.header == nil {
			specErr("visited() is only meaningful in a loop invariant")
		}
		r := headerRange(env.header)
		if r == nil {
			specErr("visited(): the loop does not range over a map")
		}
		vis, ok := env.st.visited[vc.rangeID(r)]
		if !ok {
			specErr("visited(): no iteration state")
		}
		mt := r.X.Type().Underlying().(*types.Map)
		k := env.coerce(env.evalTV(x.Args[0]), mt.Key())
		return boolTV(fmt.Sprintf("(select %s %s)", vis, vc.mapKey(env.st, k.v, mt.Key())))
	case "forallkey":
		// forallkey(k, m, body): body holds for every key value k of map m's key type
		id, ok := x.Args[0].(*ast.Ident)
		if !ok || len(x.Args) != 3 {
			specErr("forallkey(k, m, body)")
		}
		m := env.evalTV(x.Args[1])
		mt, ok := m.t.Underlying().(*types.Map)
		if !ok {
			specErr("forallkey: second argument must be a map")
		}
		if width(mt.Key()) != 1 {
			specErr("forallkey: only scalar key types")
		}
		vc.ctr++
		bv := fmt.Sprintf("%s_q%d", id.Name, vc.ctr)
		sub := *env
		sub.vars = map[string]TV{}
		for k, v := range env.vars {
			sub.vars[k] = v
		}
		sub.vars[id.Name] = TV{IntV{bv}, mt.Key()}
		sub.bound = map[string]bool{bv: true}
		for k := range env.bound {
			sub.bound[k] = true
		}
		vc.pure++
		vc.boundNames = append(vc.boundNames, bv)
		body := func() string {
			defer func() { vc.pure--; vc.boundNames = vc.boundNames[:len(vc.boundNames)-1] }()
			return vc.quantBody(false, func() string { return sub.evalBoolExpr(x.Args[2]) })
		}()
		// trigger on the slot term of the quantified map: instantiated for every key the VC mentions
		slot := vc.mapSlot(bv, width(mt.Elem())+1)
		if strings.Contains(body, slot) {
			return boolTV(fmt.Sprintf("(forall ((%s Int)) (! %s :pattern (%s)))", bv, body, slot))
		}
		return boolTV(fmt.Sprintf("(forall ((%s Int)) %s)", bv, body))
	case "unchanged":
		cur := env.evalTV(x.Args[0])
		old := env.withState(env.old).evalTV(x.Args[0])
		return boolTV(eqLeaves(cur.v, old.v))
	case "elemsUnchanged":
		// every cell of the backing array of the (old) slice is unchanged up to its capacity
		old := env.withState(env.old).evalTV(x.Args[0])
		s, ok := old.v.(SliceV)
		if !ok {
			specErr("elemsUnchanged on non-slice")
		}
		return boolTV(and(
			implies(not(eq(s.ref, "0")), eq(fmt.Sprintf("(select %s %s)", env.st.mi, s.ref), fmt.Sprintf("(select %s %s)", env.old.mi, s.ref))),
			implies(not(eq(s.ref, "0")), eq(fmt.Sprintf("(select %s %s)", env.st.mr, s.ref), fmt.Sprintf("(select %s %s)", env.old.mr, s.ref)))))
	case "objUnchanged":
		old := env.withState(env.old).evalTV(x.Args[0])
		r := refOf(old.v)
		return boolTV(and(eq(fmt.Sprintf("(select %s %s)", env.st.mi, r), fmt.Sprintf("(select %s %s)", env.old.mi, r)), eq(fmt.Sprintf("(select %s %s)", env.st.mr, r), fmt.Sprintf("(select %s %s)", env.old.mr, r))))
	case "min":
		a, b := env.evalTV(x.Args[0]).v.(IntV).t, env.evalTV(x.Args[1]).v.(IntV).t
		return TV{IntV{ite(fmt.Sprintf("(<= %s %s)", a, b), a, b)}, basicT(types.Int)}
	case "max":
		a, b := env.evalTV(x.Args[0]).v.(IntV).t, env.evalTV(x.Args[1]).v.(IntV).t
		return TV{IntV{ite(fmt.Sprintf("(>= %s %s)", a, b), a, b)}, basicT(types.Int)}
	case "uf":
		// uf("name", args...) : uninterpreted function over scalar leaves
		lit, ok := x.Args[0].(*ast.BasicLit)
		if !ok {
			specErr("uf needs a literal name")
		}
		n, _ := strconv.Unquote(lit.Value)
		var as []string
		for _, a := range x.Args[1:] {
			as = append(as, flatten(env.evalTV(a).v)...)
		}
		return TV{IntV{vc.uf("spec_"+n, as...)}, basicT(types.Int)}
	case "ufb":
		lit, ok := x.Args[0].(*ast.BasicLit)
		if !ok {
			specErr("ufb needs a literal name")
		}
		n, _ := strconv.Unquote(lit.Value)
		var as []string
		for _, a := range x.Args[1:] {
			as = append(as, flatten(env.evalTV(a).v)...)
		}
		return boolTV(eq(vc.uf("spec_"+n, as...), "1"))
	}
	if sf, ok := vc.eng.contracts.Specs[name]; ok {
		if env.depth > 12 {
			specErr("spec function recursion too deep: %s", name)
		}
		if len(x.Args) != len(sf.Params) {
			specErr("spec %s expects %d arguments", name, len(sf.Params))
		}
		sub := *env
		sub.depth++
		sub.vars = map[string]TV{}
		for k, v := range env.vars {
			sub.vars[k] = v
		}
		for k, p := range sf.Params {
			sub.vars[p] = env.evalTV(x.Args[k])
		}
		return sub.evalTV(sf.Body)
	}
	// conversion T(x)
	if t := env.resolveType(x.Fun); t != nil && len(x.Args) == 1 {
		v := env.evalTV(x.Args[0])
		return TV{env.coerce(v, t).v, t}
	}
	specErr("unknown function %q in contract", name)
	return TV{}
}

var _ = strings.TrimSpace

// lookupField: field selection as in Go, and additionally direct unexported fields of types from other
// packages (contracts of external functions talk about them, e.g. reflect.Value.ptr).
func lookupField(t types.Type, pkg *types.Package, name string) (types.Object, []int) {
	obj, index, _ := types.LookupFieldOrMethod(t, true, pkg, name)
	if obj != nil {
		return obj, index
	}
	u := t.Underlying()
	if p, ok := u.(*types.Pointer); ok {
		u = p.Elem().Underlying()
	}
	if st, ok := u.(*types.Struct); ok {
		for i := 0; i < st.NumFields(); i++ {
			if st.Field(i).Name() == name {
				return st.Field(i), []int{i}
			}
		}
	}
	return nil, nil
}

// quantBody evaluates the body of a contract quantifier. Values read from memory under the bound
// variable are well-formed by the typed-memory assumption (the same one every load in the code
// relies on); those facts are collected while the body is evaluated and guard it.
func (vc *VC) quantBody(existential bool, eval func() string) string {
	vc.quantSides = append(vc.quantSides, nil)
	body := eval()
	n := len(vc.quantSides)
	sides := vc.quantSides[n-1]
	vc.quantSides = vc.quantSides[:n-1]
	if len(sides) == 0 {
		return body
	}
	seen := map[string]bool{}
	var uniq []string
	for _, s := range sides {
		if !seen[s] {
			seen[s] = true
			uniq = append(uniq, s)
		}
	}
	vc.used["typed memory: values read under a contract quantifier are well-formed"] = true
	if existential {
		return and(append(uniq, body)...) // the witness is a well-formed value
	}
	return implies(and(uniq...), body)
}
