#!/bin/bash
# usage: trymut.sh <patch.diff> <prop>...   applies the patch to /repo, runs the checks, always reverts
patch=$1; shift
cd /repo || exit 3
if [ -n "$(git status --porcelain)" ]; then echo "repo dirty"; exit 3; fi
git apply "$patch" || { echo "patch does not apply"; exit 3; }
for p in "$@"; do /verif/bin/gvc check $p 2>&1 | grep -v "^  obligation" | tail -6; echo "[$p exit=${PIPESTATUS[0]}]"; done
git checkout -- . ; git status --porcelain | head -3
