#!/bin/bash
# Copies the contract mirror /verif/contracts/*.go to /repo/<pkg>/zz_contracts_verif.go (build tag verif,
# comment-only) and commits them in /repo as a small "hook:" commit. The engine refuses to run when the two differ.
set -e
declare -A dst=( [gorm.go]="" [gorm_clause.go]="clause" [gorm_callbacks.go]="callbacks" [gorm_schema.go]="schema" [gorm_utils.go]="utils" [gorm_migrator.go]="migrator" )
changed=0
for f in "${!dst[@]}"; do
  src=/verif/contracts/$f
  [ -f "$src" ] || continue
  d=/repo/${dst[$f]}
  t=$d/zz_contracts_verif.go
  if ! cmp -s "$src" "$t"; then cp "$src" "$t"; git -C /repo add "$t"; changed=1; fi
done
if [ $changed = 1 ]; then
  git -C /repo commit -q -m "hook: verification contracts (comment-only files behind the 'verif' build tag)

Structured //@ comments read by /verif/engine (gvc). The files carry '//go:build verif',
contain no code, and are not compiled without the tag." 
  echo "committed: $(git -C /repo log --format=%h -1)"
else
  echo "contracts already in sync"
fi
python3 /verif/tools/mkmanifest.py >/dev/null
