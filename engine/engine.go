package main

import (
	"fmt"
	"go/ast"
	"go/token"
	"go/types"
	"os"
	"path/filepath"
	"sort"
	"strings"

	"golang.org/x/tools/go/callgraph"
	"golang.org/x/tools/go/callgraph/cha"
	"golang.org/x/tools/go/packages"
	"golang.org/x/tools/go/ssa"
	"golang.org/x/tools/go/ssa/ssautil"
)

type immLeaf struct {
	tid  int
	leaf int
	kind byte
	name string
}

type Engine struct {
	repo, verif string
	fset        *token.FileSet
	prog        *ssa.Program
	pkgs        []*packages.Package
	spkgs       map[string]*ssa.Package
	contracts   *ContractSet
	contractSrc map[string]string
	typeIDs     map[string]int
	typeByID    map[int]types.Type
	objKind     map[int]string // "arr" / "map" for ids of array and map objects
	strIDs      map[string]int
	funcIDs     map[*ssa.Function]int
	funcByShort map[string]*ssa.Function
	globals     map[*ssa.Global]int
	ifaces      map[string]types.Type
	escCache    map[*ssa.Alloc]bool
	loopCache   map[*ssa.Function]map[*ssa.BasicBlock]int
	loopTexts   map[*ssa.Function][]string
	nameCache   map[*ssa.Function]map[string]nameRef
	syntax      map[*ssa.Function]ast.Node
	cg          *callgraph.Graph
	reachGhost  map[*ssa.Function]map[string]bool
	immutableLeaves []immLeaf
	allFuncs    []*ssa.Function
	ownCache    map[string]bool
	loadMs      int64
	pureCache   map[*ssa.Function]bool
	implCache   map[*ssa.Function]*FuncContract
	skipped     []string
	curRoot     *ssa.Function
	curScope    []*ssa.Function // root and the functions currently being inlined
}

var repoPkgPaths = []string{"gorm.io/gorm", "gorm.io/gorm/clause", "gorm.io/gorm/callbacks", "gorm.io/gorm/schema", "gorm.io/gorm/utils", "gorm.io/gorm/migrator"}

func newEngine(repo, verif string, overlay map[string][]byte) (*Engine, error) {
	e := &Engine{repo: repo, verif: verif, typeIDs: map[string]int{}, typeByID: map[int]types.Type{}, objKind: map[int]string{}, strIDs: map[string]int{}, funcIDs: map[*ssa.Function]int{}, funcByShort: map[string]*ssa.Function{}, globals: map[*ssa.Global]int{}, ifaces: map[string]types.Type{}, escCache: map[*ssa.Alloc]bool{}, loopCache: map[*ssa.Function]map[*ssa.BasicBlock]int{}, loopTexts: map[*ssa.Function][]string{}, nameCache: map[*ssa.Function]map[string]nameRef{}, pureCache: map[*ssa.Function]bool{}, syntax: map[*ssa.Function]ast.Node{}, spkgs: map[string]*ssa.Package{}}
	cs, used, err := loadContracts(repo, verif)
	if err != nil {
		return nil, fmt.Errorf("contracts: %v", err)
	}
	e.contracts, e.contractSrc = cs, used
	cfg := &packages.Config{Mode: packages.LoadAllSyntax, Dir: repo, BuildFlags: []string{"-tags=verif"}, Overlay: overlay,
		Env: append(os.Environ(), "GOFLAGS=-mod=mod", "GOPROXY=off", "GOSUMDB=off", "GOTOOLCHAIN=local")}
	pkgs, err := packages.Load(cfg, repoPkgPaths...)
	if err != nil {
		return nil, fmt.Errorf("load: %v", err)
	}
	var errs []string
	packages.Visit(pkgs, nil, func(p *packages.Package) {
		for _, er := range p.Errors {
			errs = append(errs, er.Error())
		}
	})
	if len(errs) > 0 {
		return nil, fmt.Errorf("tree does not compile:\n%s", strings.Join(errs, "\n"))
	}
	e.pkgs = pkgs
	e.fset = pkgs[0].Fset
	prog, spkgs := ssautil.AllPackages(pkgs, ssa.InstantiateGenerics|ssa.GlobalDebug)
	prog.Build()
	e.prog = prog
	for _, sp := range spkgs {
		if sp != nil {
			e.spkgs[sp.Pkg.Path()] = sp
		}
	}
	for fn := range ssautil.AllFunctions(prog) {
		if fn.Pkg == nil || pkgDirs[fn.Pkg.Pkg.Path()] == "" && fn.Pkg.Pkg.Path() != "gorm.io/gorm" {
			if fn.Pkg == nil || !isRepoPkg(fn.Pkg.Pkg.Path()) {
				continue
			}
		}
		if fn.Synthetic != "" && !strings.Contains(fn.Synthetic, "instance of") {
			continue
		}
		if strings.HasSuffix(e.fset.Position(fn.Pos()).Filename, "_test.go") {
			continue
		}
		e.allFuncs = append(e.allFuncs, fn)
	}
	sort.Slice(e.allFuncs, func(i, j int) bool { return e.allFuncs[i].String() < e.allFuncs[j].String() })
	for _, fn := range e.allFuncs {
		e.funcByShort[e.shortName(fn)] = fn
	}
	e.resolveClosureKeys()
	e.resolveImmutables()
	return e, nil
}

// resolveClosureKeys: a contract key "F${kind:what}" names the unique function literal inside F that
// directly contains an instruction of shape "kind what" (closure ordinals shift under harmless edits).
// A key that resolves to no or several literals is left as it is and reported as a missing anchor.
func (e *Engine) resolveClosureKeys() {
	var keys []string
	for k := range e.contracts.Funcs {
		if strings.Contains(k, "${") {
			keys = append(keys, k)
		}
	}
	sort.Strings(keys)
	for _, k := range keys {
		fc := e.contracts.Funcs[k]
		i := strings.Index(fc.Key, "${")
		j := strings.LastIndex(fc.Key, "}")
		if i < 0 || j < i {
			continue
		}
		parent := shortPkg(fc.PkgPath) + "." + fc.Key[:i] + "$"
		shape := strings.Replace(fc.Key[i+2:j], ":", " ", 1)
		var found []*ssa.Function
		for _, fn := range e.allFuncs {
			if fn.Parent() == nil || !strings.HasPrefix(e.shortName(fn), parent) {
				continue
			}
			hit := false
			for _, b := range fn.Blocks {
				for _, ins := range b.Instrs {
					for _, sh := range e.instrShape(ins) {
						if sh == shape {
							hit = true
						}
					}
				}
			}
			if hit {
				found = append(found, fn)
			}
		}
		if len(found) != 1 {
			continue
		}
		delete(e.contracts.Funcs, k)
		fc.Key = e.keyOf(found[0])
		e.contracts.Funcs[fc.PkgPath+" "+fc.Key] = fc
	}
}

func isRepoPkg(p string) bool {
	_, ok := pkgDirs[p]
	return ok
}

// shortName: "clause.(Limit).MergeClause", "gorm.(*DB).Transaction$1", "callbacks.Create$1".
func (e *Engine) shortName(fn *ssa.Function) string {
	s := fn.String()
	s = strings.ReplaceAll(s, "gorm.io/gorm/", "")
	s = strings.ReplaceAll(s, "gorm.io/gorm.", "gorm.")
	// (*clause.Limit).X -> clause.(*Limit).X
	if strings.HasPrefix(s, "(") {
		end := strings.Index(s, ")")
		recv := s[1:end]
		star := ""
		if strings.HasPrefix(recv, "*") {
			star = "*"
			recv = recv[1:]
		}
		if i := strings.LastIndex(recv, "."); i >= 0 {
			return recv[:i] + ".(" + star + recv[i+1:] + ")" + s[end+1:]
		}
	}
	return s
}

// keyOf: the contract key of a function inside its package: "(Limit).MergeClause", "And", "Create$1".
func (e *Engine) keyOf(fn *ssa.Function) string {
	s := e.shortName(fn)
	if i := strings.Index(s, "."); i >= 0 {
		return s[i+1:]
	}
	return s
}

func (e *Engine) eventKeyOf(fn *ssa.Function) string { return e.keyOf(fn) }

func (e *Engine) contractFor(fn *ssa.Function) *FuncContract {
	if fn.Pkg == nil {
		return nil
	}
	return e.contracts.Funcs[fn.Pkg.Pkg.Path()+" "+e.keyOf(fn)]
}

// ifaceContractOfImpl: a /repo method that implements an interface method under contract may be
// called statically by that contract (the implementation is itself verified against it).
func (e *Engine) ifaceContractOfImpl(fn *ssa.Function) *FuncContract {
	if e.implCache == nil {
		e.implCache = map[*ssa.Function]*FuncContract{}
		var keys []string
		for k := range e.contracts.Ifaces {
			keys = append(keys, k)
		}
		sort.Strings(keys)
		for _, k := range keys {
			fc := e.contracts.Ifaces[k]
			parts := strings.SplitN(fc.Key, ".", 2)
			if len(parts) != 2 {
				continue
			}
			for _, impl := range e.implementations(fc.PkgPath, parts[0], parts[1]) {
				if _, dup := e.implCache[impl]; !dup {
					e.implCache[impl] = fc
				}
			}
		}
	}
	return e.implCache[fn]
}

func (e *Engine) externFor(fn *ssa.Function) *FuncContract {
	if fc, ok := e.contracts.Externs[fn.String()]; ok {
		return fc
	}
	// generic instances: strip type arguments
	s := fn.String()
	if i := strings.Index(s, "["); i > 0 {
		if fc, ok := e.contracts.Externs[s[:i]]; ok {
			return fc
		}
	}
	return nil
}

func namedOf(t types.Type) *types.Named {
	if p, ok := t.(*types.Pointer); ok {
		t = p.Elem()
	}
	n, _ := t.(*types.Named)
	return n
}

func (e *Engine) ifaceKey(t types.Type, method string) string {
	if n := namedOf(t); n != nil {
		return n.Obj().Name() + "." + method
	}
	return "interface." + method
}

func (e *Engine) ifaceContract(t types.Type, method string) *FuncContract {
	n := namedOf(t)
	if n == nil || n.Obj().Pkg() == nil {
		return nil
	}
	if fc, ok := e.contracts.Ifaces[n.Obj().Pkg().Path()+" "+n.Obj().Name()+"."+method]; ok {
		return fc
	}
	// embedded interfaces: find the interface that declares the method
	if it, ok := n.Underlying().(*types.Interface); ok {
		for i := 0; i < it.NumEmbeddeds(); i++ {
			if fc := e.ifaceContract(it.EmbeddedType(i), method); fc != nil {
				return fc
			}
		}
	}
	return nil
}

func (e *Engine) pkgOfContract(fc *FuncContract) *types.Package {
	return e.pkgByPath(fc.PkgPath)
}
func (e *Engine) pkgByPath(p string) *types.Package {
	if sp, ok := e.spkgs[p]; ok {
		return sp.Pkg
	}
	if p == "" {
		return e.spkgs["gorm.io/gorm"].Pkg
	}
	return nil
}

func (e *Engine) findPackage(from *types.Package, name string) *types.Package {
	if from != nil {
		for _, imp := range from.Imports() {
			if imp.Name() == name {
				return imp
			}
		}
	}
	for _, sp := range e.spkgs {
		if sp.Pkg.Name() == name {
			return sp.Pkg
		}
	}
	for _, p := range e.prog.AllPackages() {
		if p.Pkg.Name() == name {
			return p.Pkg
		}
	}
	return nil
}

func (e *Engine) tid(t types.Type) int {
	k := types.TypeString(t, nil)
	if id, ok := e.typeIDs[k]; ok {
		return id
	}
	id := len(e.typeIDs) + 1
	e.typeIDs[k] = id
	e.typeByID[id] = t
	return id
}

// arrTid / mapTid: ids of the object kinds "backing array of element type T" and "map object",
// kept apart from the ids of variables (cells) of slice or map type.
func (e *Engine) arrTid(elem types.Type) int {
	k := "arr:" + types.TypeString(elem, nil)
	if id, ok := e.typeIDs[k]; ok {
		return id
	}
	id := len(e.typeIDs) + 1
	e.typeIDs[k] = id
	e.typeByID[id] = types.NewSlice(elem)
	e.objKind[id] = "arr"
	return id
}

func (e *Engine) mapTid(mt types.Type) int {
	k := "map:" + types.TypeString(mt.Underlying(), nil)
	if id, ok := e.typeIDs[k]; ok {
		return id
	}
	id := len(e.typeIDs) + 1
	e.typeIDs[k] = id
	e.typeByID[id] = mt.Underlying()
	e.objKind[id] = "map"
	return id
}

func (e *Engine) strID(s string) int {
	if id, ok := e.strIDs[s]; ok {
		return id
	}
	id := len(e.strIDs) + 1
	e.strIDs[s] = id
	return id
}

func (e *Engine) funcID(f *ssa.Function) int {
	if id, ok := e.funcIDs[f]; ok {
		return id
	}
	id := 1000000 + len(e.funcIDs) + 1
	e.funcIDs[f] = id
	return id
}

func (e *Engine) noteIface(t types.Type) { e.ifaces[types.TypeString(t, nil)] = t }

// globalRef: package-level variables are pre-existing objects with fixed distinct references.
func (e *Engine) globalRef(vc *VC, g *ssa.Global) string {
	id, ok := e.globals[g]
	if !ok {
		id = len(e.globals) + 1
		e.globals[g] = id
	}
	name := fmt.Sprintf("glob_%d", id)
	if !vc.declared[name] {
		vc.declared[name] = true
		vc.decls = append(vc.decls, fmt.Sprintf("(declare-const %s Int)", name))
		vc.assertGlobal(fmt.Sprintf("(and (>= %s 1) (< %s alloc0) (= (typ %s) %d))", name, name, name, e.tid(g.Type().(*types.Pointer).Elem())))
		// distinct from other globals
		var others []string
		for other := range vc.declared {
			if strings.HasPrefix(other, "glob_") && other != name {
				others = append(others, other)
			}
		}
		sort.Strings(others) // the text of a query must not depend on map iteration order
		for _, other := range others {
			vc.assertGlobal(fmt.Sprintf("(not (= %s %s))", name, other))
		}
		// package-level values declared constant: one fixed value, independent of memory
		if g.Pkg != nil {
			for _, cn := range e.contracts.Constants[g.Pkg.Pkg.Path()] {
				if cn == g.Name() {
					et := g.Type().(*types.Pointer).Elem()
					lay := layout(et)
					ls := make([]string, len(lay))
					for k := range ls {
						ls[k] = fmt.Sprintf("gconst_%d_%d", id, k)
						vc.decls = append(vc.decls, fmt.Sprintf("(declare-const %s Int)", ls[k]))
					}
					v, _ := unflatten(et, ls)
					if vc.constGlobalVals == nil {
						vc.constGlobalVals = map[string]Val{}
					}
					vc.constGlobalVals[name] = v
					vc.used["package-level value "+g.Pkg.Pkg.Name()+"."+cn+" is never reassigned"] = true
				}
			}
		}
	}
	return name
}

// wholeObjectType: pointers to these struct types are assumed to address whole allocations.
func (e *Engine) wholeObjectType(t types.Type) bool {
	n, ok := t.(*types.Named)
	if !ok {
		return false
	}
	if _, ok := n.Underlying().(*types.Struct); !ok {
		return false
	}
	return n.Obj().Pkg() != nil && isRepoPkg(n.Obj().Pkg().Path())
}

// escapes: may the address of a local be observed by a callee?
func (e *Engine) escapes(a *ssa.Alloc) bool {
	if v, ok := e.escCache[a]; ok {
		return v
	}
	var walk func(x ssa.Value) bool
	walk = func(x ssa.Value) bool {
		refs := x.Referrers()
		if refs == nil {
			return true
		}
		for _, u := range *refs {
			switch u := u.(type) {
			case *ssa.Store:
				if u.Val == x {
					return true
				}
			case *ssa.UnOp, *ssa.DebugRef:
			case *ssa.FieldAddr:
				if walk(u) {
					return true
				}
			case *ssa.IndexAddr:
				if walk(u) {
					return true
				}
			case *ssa.MakeClosure:
				// fine when the closure is only deferred or called in this function (possibly after
				// being selected by a phi or parked in a local variable)
				if !e.onlyCalled(u, map[ssa.Value]bool{}) && !e.closureOnlyReads(u, x) {
					return true
				}
			default:
				return true
			}
		}
		return false
	}
	r := walk(a)
	e.escCache[a] = r
	return r
}

// closureOnlyReads: the function literal mc captures the variable cell but only ever loads it (and so do the
// literals nested in it). Wherever the closure travels, nothing but code of this function can write the variable.
func (e *Engine) closureOnlyReads(mc *ssa.MakeClosure, cell ssa.Value) bool {
	cf, ok := mc.Fn.(*ssa.Function)
	if !ok {
		return false
	}
	for i, b := range mc.Bindings {
		if b != cell {
			continue
		}
		fv := cf.FreeVars[i]
		refs := fv.Referrers()
		if refs == nil {
			continue
		}
		for _, u := range *refs {
			switch x := u.(type) {
			case *ssa.UnOp, *ssa.DebugRef:
			case *ssa.MakeClosure:
				if !e.closureOnlyReads(x, fv) {
					return false
				}
			default:
				return false
			}
		}
	}
	return true
}

// onlyCalled: the function value v is never passed on, stored in the heap or returned; it is only
// called or deferred, directly or through phis and non-escaping local variables.
func (e *Engine) onlyCalled(v ssa.Value, seen map[ssa.Value]bool) bool {
	if seen[v] {
		return true
	}
	seen[v] = true
	refs := v.Referrers()
	if refs == nil {
		return false
	}
	for _, u := range *refs {
		switch c := u.(type) {
		case *ssa.Defer:
			if c.Call.Value != v {
				return false
			}
		case *ssa.Call:
			if c.Call.Value != v {
				return false
			}
		case *ssa.DebugRef:
		case *ssa.Phi:
			if !e.onlyCalled(c, seen) {
				return false
			}
		case *ssa.Store:
			cell, ok := c.Addr.(*ssa.Alloc)
			if !ok || c.Val != v {
				return false
			}
			// the variable holding the closure: only loaded (and the loads only called) or assigned
			for _, cu := range *cell.Referrers() {
				switch x := cu.(type) {
				case *ssa.Store:
					if x.Addr != cell {
						return false
					}
				case *ssa.UnOp:
					if !e.onlyCalled(x, seen) {
						return false
					}
				case *ssa.DebugRef:
				default:
					return false
				}
			}
		default:
			return false
		}
	}
	return true
}

func (e *Engine) loopHeaders(fn *ssa.Function) map[*ssa.BasicBlock]int {
	if m, ok := e.loopCache[fn]; ok {
		return m
	}
	m := map[*ssa.BasicBlock]int{}
	var hs []*ssa.BasicBlock
	for _, b := range fn.Blocks {
		if isLoopHeader(b) {
			hs = append(hs, b)
		}
	}
	pos := func(b *ssa.BasicBlock) token.Pos {
		p := token.Pos(1 << 60)
		// the loop statement position: smallest position in the header or its body entry
		// (phis and debug references carry the position of the variable's declaration, which may
		// precede the loop: they do not count)
		at := func(ins ssa.Instruction) {
			switch ins.(type) {
			case *ssa.Phi, *ssa.DebugRef:
				return
			}
			if ins.Pos().IsValid() && ins.Pos() < p {
				p = ins.Pos()
			}
		}
		for _, ins := range b.Instrs {
			at(ins)
		}
		for _, s := range b.Succs {
			for _, ins := range s.Instrs {
				at(ins)
			}
		}
		return p
	}
	sort.SliceStable(hs, func(i, j int) bool { return pos(hs[i]) < pos(hs[j]) })
	for k, h := range hs {
		m[h] = k + 1
	}
	e.loopCache[fn] = m
	return m
}

func (e *Engine) inLoop(b *ssa.BasicBlock) bool {
	fn := b.Parent()
	for _, h := range fn.Blocks {
		if isLoopHeader(h) && loopBody(h)[b] {
			return true
		}
	}
	return false
}

// loopHeaderText: source text of the k-th loop statement of fn ("for i := 0; i < n; i++", "range vars").
func (e *Engine) loopHeaderText(fn *ssa.Function, ordinal int) string {
	texts, ok := e.loopTexts[fn]
	if !ok {
		syn := fn.Syntax()
		if syn != nil {
			var body *ast.BlockStmt
			switch s := syn.(type) {
			case *ast.FuncDecl:
				body = s.Body
			case *ast.FuncLit:
				body = s.Body
			}
			if body != nil {
				ast.Inspect(body, func(n ast.Node) bool {
					switch l := n.(type) {
					case *ast.FuncLit:
						return false
					case *ast.ForStmt:
						texts = append(texts, e.nodeText(l.Pos(), l.Body.Lbrace))
					case *ast.RangeStmt:
						texts = append(texts, e.nodeText(l.Pos(), l.Body.Lbrace))
					}
					return true
				})
			}
		}
		e.loopTexts[fn] = texts
	}
	// loops made with goto have a header but no loop statement: they are skipped when headers are paired with
	// the loop statements of the source (both in source order), and are addressed as "label NAME"
	var hs []*ssa.BasicBlock
	for h := range e.loopHeaders(fn) {
		hs = append(hs, h)
	}
	ords := e.loopHeaders(fn)
	sort.Slice(hs, func(i, j int) bool { return ords[hs[i]] < ords[hs[j]] })
	k := 0
	for _, h := range hs {
		structured := strings.HasPrefix(h.Comment, "for.") || strings.HasPrefix(h.Comment, "range")
		if ords[h] == ordinal {
			if !structured {
				return "label " + h.Comment
			}
			if k < len(texts) {
				return texts[k]
			}
			return ""
		}
		if structured {
			k++
		}
	}
	return ""
}

func (e *Engine) nodeText(from, to token.Pos) string {
	p1, p2 := e.fset.Position(from), e.fset.Position(to)
	data, err := os.ReadFile(p1.Filename)
	if err != nil || p2.Offset > len(data) || p1.Offset > p2.Offset {
		return ""
	}
	t := strings.TrimSpace(string(data[p1.Offset:p2.Offset]))
	t = strings.TrimPrefix(t, "for ")
	if i := strings.Index(t, ":= range "); i >= 0 {
		t = "range " + t[i+9:]
	} else if i := strings.Index(t, "= range "); i >= 0 {
		t = "range " + t[i+8:]
	}
	return normSpace(t)
}

// sourceNames maps source-level variable names to SSA values: the cell (Alloc) that holds an
// address-taken variable, or the SSA versions (phis carrying the name, values seen by DebugRefs)
// of a register variable. The version that reaches a program point is chosen by dominance.
type nameRef struct {
	val  ssa.Value
	cell bool
	vals []ssa.Value
}

func (e *Engine) sourceNames(fn *ssa.Function) map[string]nameRef {
	if m, ok := e.nameCache[fn]; ok {
		return m
	}
	m := map[string]nameRef{}
	add := func(name string, v ssa.Value) {
		nr := m[name]
		if nr.cell {
			return
		}
		for _, x := range nr.vals {
			if x == v {
				return
			}
		}
		nr.vals = append(nr.vals, v)
		if nr.val == nil {
			nr.val = v
		}
		m[name] = nr
	}
	for _, b := range fn.Blocks {
		for _, ins := range b.Instrs {
			switch i := ins.(type) {
			case *ssa.Alloc:
				c := i.Comment
				if c != "" && !strings.Contains(c, " ") && !strings.Contains(c, ".") && c != "new" && c != "complit" && c != "varargs" && c != "slicelit" && c != "makeslice" && c != "selectres" {
					m[c] = nameRef{val: i, cell: true}
				}
			}
		}
	}
	for _, b := range fn.Blocks {
		for _, ins := range b.Instrs {
			switch i := ins.(type) {
			case *ssa.Phi:
				if i.Comment != "" && i.Comment != "rangeindex" && !strings.Contains(i.Comment, " ") {
					add(i.Comment, i)
				}
			case *ssa.DebugRef:
				if i.IsAddr {
					continue
				}
				id, ok := i.Expr.(*ast.Ident)
				if !ok {
					continue
				}
				if _, isConst := i.X.(*ssa.Const); isConst {
					continue
				}
				add(id.Name, i.X)
			}
		}
	}
	e.nameCache[fn] = m
	return m
}

// reaching picks the SSA version of a named variable that reaches the start (or, with atEnd, the
// end) of block at: the candidate whose definition dominates the point and is dominated by every
// other such candidate.
func reaching(nr nameRef, at *ssa.BasicBlock, atEnd bool, before ssa.Instruction, strict bool) ssa.Value {
	if at == nil || (len(nr.vals) <= 1 && !strict) {
		return nr.val
	}
	beforePos := -1
	if before != nil && before.Block() == at {
		for k, x := range at.Instrs {
			if x == before {
				beforePos = k
			}
		}
	}
	defBlock := func(v ssa.Value) *ssa.BasicBlock {
		if ins, ok := v.(ssa.Instruction); ok {
			return ins.Block()
		}
		return at.Parent().Blocks[0]
	}
	pos := func(v ssa.Value) int {
		ins, ok := v.(ssa.Instruction)
		if !ok {
			return -1
		}
		for k, x := range ins.Block().Instrs {
			if x == ins {
				return k
			}
		}
		return -1
	}
	var best ssa.Value
	for _, v := range nr.vals {
		db := defBlock(v)
		if db == at {
			if _, isPhi := v.(*ssa.Phi); !isPhi {
				if beforePos >= 0 {
					if pos(v) >= beforePos {
						continue // defined after the instruction the clause is attached to
					}
				} else if !atEnd {
					continue // defined later in the same block
				}
			}
		} else if !db.Dominates(at) {
			continue
		}
		if best == nil {
			best = v
			continue
		}
		bb := defBlock(best)
		if bb == db {
			if pos(v) > pos(best) {
				best = v
			}
		} else if bb.Dominates(db) {
			best = v
		}
	}
	if best == nil {
		if strict {
			return nil // no definition of the name reaches this point
		}
		return nr.val
	}
	return best
}

// autoPure: mechanically established purity — the body writes no escaping memory, spawns nothing
// and calls only pure functions. Such a callee needs no frame contract.
func (e *Engine) autoPure(fn *ssa.Function) bool {
	if v, ok := e.pureCache[fn]; ok {
		return v
	}
	e.pureCache[fn] = false // recursion: assume impure
	if len(fn.Blocks) == 0 {
		return false
	}
	pure := true
	for _, b := range fn.Blocks {
		for _, ins := range b.Instrs {
			switch i := ins.(type) {
			case *ssa.Store:
				var root ssa.Value = i.Addr
				for {
					if fa, ok := root.(*ssa.FieldAddr); ok {
						root = fa.X
						continue
					}
					if ia, ok := root.(*ssa.IndexAddr); ok {
						if _, isPtr := ia.X.Type().Underlying().(*types.Pointer); isPtr {
							root = ia.X
							continue
						}
					}
					break
				}
				if a, ok := root.(*ssa.Alloc); !ok || e.escapes(a) {
					pure = false
				}
			case *ssa.MapUpdate, *ssa.Go, *ssa.Defer, *ssa.Send, *ssa.Select:
				pure = false
			case *ssa.UnOp:
				if i.Op == token.ARROW {
					pure = false
				}
			case *ssa.Call:
				if bi, ok := i.Call.Value.(*ssa.Builtin); ok {
					switch bi.Name() {
					case "len", "cap", "min", "max", "panic":
					default:
						pure = false
					}
					continue
				}
				callee := i.Call.StaticCallee()
				if callee == nil {
					if i.Call.IsInvoke() {
						if ic := e.ifaceContract(i.Call.Value.Type(), i.Call.Method.Name()); ic != nil && ic.Pure {
							continue
						}
					}
					pure = false
					continue
				}
				if fc := e.contractFor(callee); fc != nil {
					if !fc.Pure {
						pure = false
					}
					continue
				}
				if ec := e.externFor(callee); ec != nil {
					if !ec.Pure {
						pure = false
					}
					continue
				}
				if !e.autoPure(callee) {
					pure = false
				}
			}
		}
	}
	e.pureCache[fn] = pure
	return pure
}

// ---------- events, sites ----------
func (e *Engine) eventsFor(kind, key string) []*Event {
	var out []*Event
	for _, ev := range e.contracts.Events {
		if ev.Kind != kind {
			continue
		}
		short := key
		if i := strings.Index(ev.Key, "."); kind == "call" && i > 0 && !strings.HasPrefix(ev.Key, "(") {
			// "gorm.(*DB).AddError" names the callee with its package
			short = ev.Key[i+1:]
			if ev.Key[i+1:] != key && ev.Key != key {
				continue
			}
			_ = short
			if len(ev.In) > 0 && !e.eventInScope(ev) {
				continue
			}
			out = append(out, ev)
			continue
		}
		if ev.Key == key || ev.Key == "*" || (kind == "invoke" && strings.HasPrefix(ev.Key, "*.") && strings.HasSuffix(key, ev.Key[1:])) {
			if len(ev.In) > 0 && !e.eventInScope(ev) {
				continue
			}
			out = append(out, ev)
		}
	}
	return out
}

// eventInScope: events restricted with `in` fire only while verifying (or inlining into) those functions.
func (e *Engine) eventInScope(ev *Event) bool {
	if e.curRoot == nil {
		return true
	}
	for _, fn := range e.curScope {
		name := e.shortName(fn)
		for _, p := range ev.In {
			if globMatch(p, name) {
				return true
			}
		}
	}
	return false
}

func globMatch(pat, s string) bool {
	ok, _ := filepath.Match(pat, s)
	return ok || pat == s
}

func (e *Engine) sitesFor(shape string, fn, root *ssa.Function) []*Site {
	var out []*Site
	name := e.shortName(fn)
	for _, s := range e.contracts.Sites {
		hit := false
		for _, m := range s.Match {
			if m == shape || globMatch(m, shape) {
				hit = true
			}
		}
		if !hit {
			continue
		}
		if len(s.In) > 0 {
			in := false
			for _, p := range s.In {
				if globMatch(p, name) {
					in = true
				}
			}
			if !in {
				continue
			}
		}
		skip := false
		for _, p := range s.NotIn {
			if globMatch(p, name) {
				skip = true
			}
		}
		if skip {
			continue
		}
		out = append(out, s)
	}
	return out
}

// functionsWithSite returns the functions (closures included) that contain an instruction of the shape.
func (e *Engine) instrShape(ins ssa.Instruction) []string {
	var out []string
	switch i := ins.(type) {
	case *ssa.TypeAssert:
		// a case of a type switch / a type assertion: "typeassert []byte" (an anchor: sites on it carry no state)
		out = append(out, "typeassert "+types.TypeString(i.AssertedType, func(p *types.Package) string { return p.Name() }))
	case *ssa.MapUpdate:
		out = append(out, "mapwrite "+mapWhatOf(i.Map))
	case ssa.CallInstruction:
		c := i.Common()
		if b, isB := c.Value.(*ssa.Builtin); isB && b.Name() == "delete" && len(c.Args) == 2 {
			out = append(out, "mapdelete "+mapWhatOf(c.Args[0]))
		}
		if c.IsInvoke() {
			out = append(out, "invoke "+e.ifaceKey(c.Value.Type(), c.Method.Name()))
		} else if callee := c.StaticCallee(); callee != nil {
			out = append(out, "call "+e.shortName(callee))
		} else if p, ok := c.Value.(*ssa.Parameter); ok {
			out = append(out, "callparam "+p.Name())
		} else if _, isB := c.Value.(*ssa.Builtin); !isB {
			out = append(out, "calldyn "+dynNameOf(c.Value))
		}
	case *ssa.UnOp:
		if fa, ok := i.X.(*ssa.FieldAddr); ok && i.Op == token.MUL {
			st := fa.X.Type().Underlying().(*types.Pointer).Elem()
			name := st.String()
			if n, ok := st.(*types.Named); ok {
				name = n.Obj().Name()
			}
			out = append(out, "load "+name+"."+st.Underlying().(*types.Struct).Field(fa.Field).Name())
		}
	case *ssa.Store:
		if fa, ok := i.Addr.(*ssa.FieldAddr); ok {
			st := fa.X.Type().Underlying().(*types.Pointer).Elem()
			name := st.String()
			if n, ok := st.(*types.Named); ok {
				name = n.Obj().Name()
			}
			out = append(out, "store "+name+"."+st.Underlying().(*types.Struct).Field(fa.Field).Name())
		}
		if ia, ok := i.Addr.(*ssa.IndexAddr); ok {
			// element stores through a slice value (not the one-element arrays of variadic calls)
			if sl, ok := ia.X.Type().Underlying().(*types.Slice); ok {
				out = append(out, "storeelem "+types.TypeString(sl.Elem(), func(p *types.Package) string { return p.Name() }))
			}
		}
	}
	return out
}

// mapWhatOf names the field a map value was loaded from ("Statement.Clauses"), or "map".
func mapWhatOf(m ssa.Value) string {
	if u, ok := m.(*ssa.UnOp); ok {
		if a, ok := u.X.(*ssa.FieldAddr); ok {
			st := a.X.Type().Underlying().(*types.Pointer).Elem()
			name := st.String()
			if n, ok := st.(*types.Named); ok {
				name = n.Obj().Name()
			}
			return name + "." + st.Underlying().(*types.Struct).Field(a.Field).Name()
		}
	}
	return "map"
}

// siteInstrCount: number of instructions matched by the site in the functions it sweeps.
func (e *Engine) siteInstrCount(s *Site) int {
	n := 0
	for _, fn := range e.functionsWithSites(s) {
		for _, b := range fn.Blocks {
			for _, ins := range b.Instrs {
				hit := false
				for _, sh := range e.instrShape(ins) {
					for _, m := range s.Match {
						if m == sh || globMatch(m, sh) {
							hit = true
						}
					}
				}
				if hit {
					n++
				}
			}
		}
	}
	return n
}

func (e *Engine) functionsWithSites(s *Site) []*ssa.Function {
	var out []*ssa.Function
	for _, fn := range e.allFuncs {
		found := false
		for _, b := range fn.Blocks {
			for _, ins := range b.Instrs {
				for _, sh := range e.instrShape(ins) {
					for _, m := range s.Match {
						if m == sh || globMatch(m, sh) {
							found = true
						}
					}
				}
			}
		}
		if found && len(e.sitesFor(s.Match[0], fn, fn)) >= 0 {
			// apply in/not-in filters
			ok := len(s.In) == 0
			name := e.shortName(fn)
			for _, p := range s.In {
				if globMatch(p, name) {
					ok = true
				}
			}
			for _, p := range s.NotIn {
				if globMatch(p, name) {
					ok = false
				}
			}
			if ok {
				out = append(out, fn)
			}
		}
	}
	return out
}

// reachableGhosts: the ghost variables that events (statically) reachable from fn may change.
// Interface and function-value callees are assumed not to fire ghost events unless an event is
// declared for the call shape itself.
func (e *Engine) reachableGhosts(fn *ssa.Function) map[string]bool {
	if len(e.contracts.Events) == 0 || fn.Pkg == nil || !isRepoPkg(fn.Pkg.Pkg.Path()) {
		return nil
	}
	if e.cg == nil {
		e.cg = cha.CallGraph(e.prog)
		e.reachGhost = map[*ssa.Function]map[string]bool{}
		savedRoot := e.curRoot
		e.curRoot = nil
		note := func(f *ssa.Function, kind, key string) {
			for _, ev := range e.eventsFor(kind, key) {
				if len(ev.In) > 0 {
					// a scoped event fires only in the bodies of the functions it names (as roots or inlined):
					// an instruction of another function never fires it, whoever calls that function
					ok := false
					for _, p := range ev.In {
						if globMatch(p, e.shortName(f)) {
							ok = true
						}
					}
					if !ok {
						continue
					}
				}
				for _, d := range ev.Do {
					if e.reachGhost[f] == nil {
						e.reachGhost[f] = map[string]bool{}
					}
					e.reachGhost[f][d.Name] = true
				}
			}
		}
		for _, f := range e.allFuncs {
			for _, b := range f.Blocks {
				for _, ins := range b.Instrs {
					for _, sh := range e.instrShape(ins) {
						parts := strings.SplitN(sh, " ", 2)
						if len(parts) == 2 {
							k := parts[1]
							if parts[0] == "call" {
								if i := strings.Index(k, "."); i >= 0 {
									k = k[i+1:]
								}
							}
							note(f, parts[0], k)
						}
					}
					switch x := ins.(type) {
					case *ssa.Go:
						note(f, "go", "")
					case *ssa.UnOp:
						if x.Op == token.ARROW {
							note(f, "recv", "")
						}
					case *ssa.Call:
						if bi, ok := x.Call.Value.(*ssa.Builtin); ok && bi.Name() == "close" {
							note(f, "close", "")
						}
					}
				}
			}
			// ghost updates declared in the function's own contract (loop exit-do, modifies ghost)
			if fc := e.contractFor(f); fc != nil {
				for _, m := range fc.Modifies {
					for _, it := range m.Items {
						if it.Kind == "ghost" {
							if e.reachGhost[f] == nil {
								e.reachGhost[f] = map[string]bool{}
							}
							e.reachGhost[f][it.Name] = true
						}
					}
				}
			}
		}
		e.curRoot = savedRoot
		changed := true
		for changed {
			changed = false
			for f, node := range e.cg.Nodes {
				if f == nil || f.Pkg == nil || !isRepoPkg(f.Pkg.Pkg.Path()) {
					continue
				}
				for _, out := range node.Out {
					if out.Site == nil || out.Site.Common().StaticCallee() == nil {
						continue
					}
					for g := range e.reachGhost[out.Callee.Func] {
						if !e.reachGhost[f][g] {
							if e.reachGhost[f] == nil {
								e.reachGhost[f] = map[string]bool{}
							}
							e.reachGhost[f][g] = true
							changed = true
						}
					}
				}
			}
		}
	}
	return e.reachGhost[fn]
}

func (e *Engine) mayReachEvent(fn *ssa.Function) bool { return len(e.reachableGhosts(fn)) > 0 }

func (e *Engine) contractTouchesGhost(fc *FuncContract) bool {
	for _, m := range fc.Modifies {
		for _, it := range m.Items {
			if it.Kind == "ghost" {
				return true
			}
		}
	}
	return false
}

// resolveImmutables turns `immutable T.f` declarations into (type id, leaf) pairs.
// resetIDs: fresh id tables for the next root (see verifyFunction).
func (e *Engine) resetIDs() {
	e.typeIDs, e.typeByID, e.objKind = map[string]int{}, map[int]types.Type{}, map[int]string{}
	e.strIDs, e.funcIDs, e.globals = map[string]int{}, map[*ssa.Function]int{}, map[*ssa.Global]int{}
	e.ifaces = map[string]types.Type{}
	e.immutableLeaves = nil
	e.resolveImmutables()
}

func (e *Engine) resolveImmutables() {
	for _, im := range e.contracts.Immutables {
		parts := strings.SplitN(im.Field, ".", 2)
		if len(parts) != 2 {
			continue
		}
		var obj types.Object
		for _, pp := range append([]string{im.PkgPath}, repoPkgPaths...) {
			if pkg := e.pkgByPath(pp); pkg != nil {
				if o := pkg.Scope().Lookup(parts[0]); o != nil {
					obj = o
					break
				}
			}
		}
		if obj == nil {
			continue
		}
		st, ok := obj.Type().Underlying().(*types.Struct)
		if !ok {
			continue
		}
		for i := 0; i < st.NumFields(); i++ {
			if st.Field(i).Name() == parts[1] {
				off := fieldOffset(st, i)
				lay := layout(st.Field(i).Type())
				for k, kind := range lay {
					e.immutableLeaves = append(e.immutableLeaves, immLeaf{e.tid(obj.Type()), off + k, kind, im.Field})
				}
			}
		}
	}
}

// dynNameOf names a function value by where it was loaded from ("Config.NowFunc", "local:f").
func dynNameOf(v ssa.Value) string {
	if u, ok := v.(*ssa.UnOp); ok {
		return storeWhatOf(u.X)
	}
	if l, ok := v.(*ssa.Lookup); ok {
		return "lookup:" + dynNameOf(l.X)
	}
	if ph, ok := v.(*ssa.Phi); ok && ph.Comment != "" {
		return "local:" + ph.Comment
	}
	return v.Name()
}

func storeWhatOf(addr ssa.Value) string {
	switch a := addr.(type) {
	case *ssa.FieldAddr:
		st := a.X.Type().Underlying().(*types.Pointer).Elem()
		name := st.String()
		if n, ok := st.(*types.Named); ok {
			name = n.Obj().Name()
		}
		return name + "." + st.Underlying().(*types.Struct).Field(a.Field).Name()
	case *ssa.IndexAddr:
		return "elem"
	case *ssa.Alloc:
		return "local:" + a.Comment
	case *ssa.Global:
		return "global:" + a.Name()
	case *ssa.FreeVar:
		return "captured:" + a.Name()
	}
	return "ptr"
}
