#!/usr/bin/env python3
"""unsat core via solver (named assertions), then prints the core assertions"""
import sys, subprocess, re
src=open(sys.argv[1]).read().split('\n')
out=['(set-option :produce-unsat-cores true)']; names={}
for i,l in enumerate(src):
    if l.startswith('(assert ') and l.endswith(')'):
        n='a%d'%i; names[n]=l
        out.append('(assert (! %s :named %s))'%(l[8:-1],n))
    elif l.startswith('(get-') or l.startswith('(set-option :produce'): continue
    else: out.append(l)
out.append('(get-unsat-core)')
open('/tmp/ucore.smt2','w').write('\n'.join(out))
r=subprocess.run(['z3-new','smt.auto_config=false','-T:200','/tmp/ucore.smt2'],capture_output=True,text=True).stdout
print(r.split('\n')[0])
core=re.findall(r'a\d+',r.split('\n',1)[1] if '\n' in r else '')
for n in sorted(core,key=lambda x:int(x[1:])): print(names[n][:600])
