#!/usr/bin/env python3
"""find the first assertion index at which a cover query becomes unsat"""
import sys, subprocess, re
src=open(sys.argv[1]).read().split('\n')
asserts=[i for i,l in enumerate(src) if l.startswith('(assert')]
def sat(n):
    keep=set(asserts[:n])|{asserts[-1]}
    txt='\n'.join(l for i,l in enumerate(src) if (i not in set(asserts) or i in keep) and not l.startswith('(get-'))
    open('/tmp/bis.smt2','w').write(txt)
    r=subprocess.run(['z3-new','-T:20','/tmp/bis.smt2'],capture_output=True,text=True).stdout.split('\n')[0]
    return r
lo,hi=0,len(asserts)-1
print('full:',sat(hi))
while lo<hi:
    mid=(lo+hi)//2
    r=sat(mid)
    if r=='unsat': hi=mid
    else: lo=mid+1
print('first unsat prefix length',lo,'of',len(asserts)); print(src[asserts[lo-1]][:1500])
