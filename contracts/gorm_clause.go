//go:build verif

// Contracts for package clause (comment-only; compiled only under the verif tag).
// Syntax and semantics: /verif/DESIGN.md section 2.2.
package clause

//@ package gorm.io/gorm/clause

//@ iface Interface.MergeClause(recv, clause)
//@   tags C06
//@   modifies *clause

//@ func (Limit).MergeClause
//@   tags C15
//@   let o = clause.Expression
//@   ensures name: clause.Name == ""
//@   ensures kind: is(clause.Expression, Limit)
//@   ensures limit-merged: is(o, Limit) ==> clause.Expression.(Limit).Limit == ite(limit.Limit != nil && *limit.Limit != 0, limit.Limit, ite(o.(Limit).Limit != nil, o.(Limit).Limit, limit.Limit))
//@   ensures offset-merged: is(o, Limit) ==> clause.Expression.(Limit).Offset == ite(limit.Offset > 0, limit.Offset, ite(limit.Offset == 0 && o.(Limit).Offset > 0, o.(Limit).Offset, 0))
//@   ensures first: !is(o, Limit) ==> clause.Expression.(Limit) == limit
