#!/usr/bin/env python3
"""Regenerates /verif/MANIFEST.json from the table below (keeps it valid at all times)."""
import json, subprocess
props = {l['id']: l for l in map(json.loads, open('/verif/properties.jsonl'))}

# property -> (technique, level text, level note, design ref)
claimed = {
 'C03': ("contract-based deductive verification: loop-invariant proof that CreateInBatches tiles the slice (ghost cursor), site obligations that every VALUES cell of a struct/slice Create is the record's own current reading of the field or its declared default (ghost: last ValueOf result, record written since), postcondition that a pooled scan holder gets a new serializer instance after each successful Scan, SMT-discharged",
         "Proof, for all slice lengths and batch sizes > 0, that every row is in exactly one batch, in order (L3); proof that ConvertToCreateValues binds to each column what field.ValueOf reads from the record after the last write to it (so the stored value is the in-memory value), and that the serializer-aware setter never leaves the instance handed to a record in the pooled holder. The per-kind conversions themselves (reflection setters/valuers, scanners, SQL engine) are outside the verifier's reach and NOT claimed.",
         'batchSize > 0 (API precondition, assumed); reflect.New/Value.Interface contracts (trusted); reflection value conversion, scan.go, the SQL engine; key back-fill (L2) not under contract', "4/C03"),
 'C10': ('contract-based deductive verification: quantified (map visited-set) loop-invariant proof of the permission lemma on Statement.SelectAndOmitColumns; site sweeps over ConvertToAssignments (a field is assigned only if selected, or unrestricted, or a tracked update time on a hook-running update; tracked times only with hooks) and ConvertMapToValuesForCreate (the stored column name is the key that was admitted); column-update methods run with hooks skipped; K3 writers sweeps (SkipHooks, parsed Field attributes); ownership analysis of the select map, SMT-discharged',
         'Proof that every field whose tag denies create/update permission is mapped to false by SelectAndOmitColumns (for all schemas and Select/Omit lists), that the update value converter writes a column only when that map (or the unrestricted/tracked-time rule) admits it, that Create-from-map checks the very column name it stores, and that UpdateColumn/UpdateColumns never refresh tracked times.',
         "Save and upsert paths, ConvertToCreateValues' column selection and ConvertSliceOfMapToValuesForCreate are not swept; the database applies the SET list as written", "4/C10"),
 'C11': ("contract-based deductive verification: full K1 contract of schema.ToQueryValues; ghost-protocol loop invariants on schema.GetIdentityFieldValuesMap (a parent is keyed exactly when some key part is non-zero) and on callbacks.preload (every parent's relation field is reset once before rows are assigned); injectivity of the identity key decided by a bounded stand-in on the real utils.ToStringKey",
         "Proof, for all inputs, that the IN-list handed to the child query holds exactly the parents' key values row by row, that no parent with a non-zero key part is left out of the identity map and none with an all-zero key is keyed, and that preload clears every parent's relation before attaching children (so a parent without match ends up empty). That different key tuples get different identity-map keys is string reasoning outside the verifier's reach: checked exhaustively on the real ToStringKey for all tuples of arity <= 2 (quick) / 3 (thorough), labelled bounded.",
         "Find returns exactly the rows matching the IN list; reflection (field.ValueOf/Set); the assignment loop's lookup by key; Joins and Association().Find paths not under contract", "4/C11"),
 'C04': ("contract-based deductive verification: ghost-state protocol contracts on DB.Transaction (panic edges, defers), Commit, Rollback, Session over go/ssa, SMT-discharged",
         "Proof of the block-runner protocol: on every normal and panic exit of the real DB.Transaction exactly one of Commit/Rollback (outer) or RollbackTo the same save point (nested) happens as the property demands; Commit/Rollback delegate at most once to the driver transaction and record its error; Session keeps a transaction-bound pool transaction-bound. database/sql atomicity and connection return are assumed.",
         "database/sql makes Commit/Rollback atomic and returns the connection; only fc may panic; dialect SavePoint/RollbackTo do what they say; Begin's body is not yet under contract", "4/C04"),
 'C05': ("contract-based deductive verification: site obligations at every driver call / implicit Begin/Commit/Rollback in callbacks (no pending error, operation's own pool and handle), error-monotonic AddError, Commit/Rollback error recording, SMT-discharged",
         "Proof of the lemmas L2-L5 of DESIGN 4/C05 on the real callbacks: no driver call or implicit BEGIN happens with a pending error, the implicit transaction is finished at most once on the operation's own handle (commit only without error), driver errors reach DB.Error, derived handles keep the connection pool. Atomicity of SQL statements and the pipeline order (C17 lemma) are assumed.",
         "pipeline registration order; association saves and hooks are not yet under contract; database atomicity", "4/C05"),
 'C06': ("contract-based deductive verification: frame (modifies) obligations on every MergeClause/Build implementation, Statement.clone, getInstance, Session and every chain method, SMT-discharged, counterexamples replayed",
         "Proof that clause merging, SQL generation and every chain method of /repo write only memory allocated by the call (in-place append into shared backing arrays included) when started from a reusable handle, and that derived handles own fresh statement/clause containers.",
         "plugin clause types and statement modifiers outside /repo respect the same interface contracts; BuildCondition's frame is trusted (finding F7); finisher epilogues (Execute reset, Count restore) not yet under contract", "4/C06"),
 'C08': ("contract-based deductive verification: functional contract of SoftDeleteQueryClause.ModifyStatement (filter appended at top level, OR units grouped first, idempotent, Unscoped no-op) with quantified loop invariants; site obligations that update/delete modifiers delegate to it and that every query/update/delete executor applies the schema's modifiers before building, SMT-discharged",
         "Proof, for all clause maps, that the soft-delete filter ends up as the last, top-level AND-ed member of the WHERE list with user OR units grouped before it, exactly once, and is skipped only under Unscoped; together with the C02 grouping lemmas the rendered text is (user conditions) AND filter.",
         "C02 lemmas; SQL semantics of IS NULL; WHERE entries hold clause.Where (assumed invariant, preserved by Where.MergeClause); joins/preload/association paths are not yet swept; schema.Parse registers the modifiers (reflection)", "4/C08"),
 'C09': ("contract-based deductive verification: functional contract of checkMissingWhereConditions from the property statement + dominance site obligations in the Update/Delete executors, SMT-discharged",
         "Proof, for all clause maps, that the guard rejects exactly the statements without an effective condition (soft-delete filter not counted) and that every driver call of the update/delete executors happens after the guard ran and passed.",
         "BuildCondition returns no expression for empty forms (trusted, reflection); WHERE entries hold clause.Where (proved for Where.MergeClause)", "4/C09"),
 'C01': ("contract-based deductive verification: event precondition at every Dialector.BindVarTo call (the value was appended to the statement's Vars immediately before, placeholder goes to the caller's writer), site obligations (driver calls receive exactly Statement.Vars; a sub-query continues from the parent's bound values; Valuers are bound whole), loop-invariant/bounds proof of Expr.Build's cursor, SMT-discharged",
         "Proof of the pairing lemma 'a placeholder is written only for the value just appended, on the same statement and writer' at every site in /repo, and that the values handed to the driver are the statement's Vars. The counting lemma (exactly one placeholder per value through all Build implementations) is NOT mechanised yet.",
         "dialect BindVarTo writes exactly one placeholder token; user Expression/Valuer implementations; Builder/Writer implementations change only builder state", "4/C01"),
 'C02': ("contract-based deductive verification: K1 contracts of the condition constructors And/Or/Not and Where.MergeClause, SMT-discharged; raw-string grouping decided by a bounded stand-in on the real Build methods",
         "Proof, for all inputs, that And/Or/Not build exactly the documented group structure (empty = no condition, single non-OR unit unchanged, AND-group negated member-wise) and that successive Where clauses concatenate in call order. The parenthesising of raw AND/OR strings (string reasoning, outside the verifier's reach) is covered by a BOUNDED exhaustive run of the real Build methods, labelled bounded and not counted as proved.",
         "SQL precedence; atoms mean what they say; BuildCondition's form conversion is trusted (reflection)", "4/C02"),
 'C12': ("contract-based deductive verification (one sentence only): site obligation at every (*DB).Delete call of Association.Replace / Delete (Clear = Replace with nothing): the call is reached only when the association is Unscoped or the relation is many-to-many (the statement is then built for the join table); K3 writers sweeps for Association.Unscope and Relationship.Type, SMT-discharged",
         "Proof of the sentence 'only links are removed - associated records survive - unless Unscoped is used' at the level of which DELETE statements association mode can issue. Which links a history of Append/Replace/Delete/Clear leaves in the database, Count/Find agreement and the in-memory relation field are NOT decided (database state after histories, reflection).",
         "the many-to-many DELETE is built for the join table (by inspection: Model(joinValue)); SQL semantics; everything else in the property", "5/C12"),
 'C13': ("contract-based deductive verification: loop invariants on callMethod (one hook call per element, CurDestIndex tracks the element), ghost-protocol contracts on the hook closures (every hook error reaches AddError), site obligations (hooks only without pending error and without SkipHooks; Save's upsert fallback skips hooks), derivations keep SkipHooks, SMT-discharged",
         "Proof of the dispatch lemmas of DESIGN 4/C13 on the real callbacks; the pipeline order and that hooks run on the operation's transaction rest on C05/C17 lemmas.",
         "schema.Parse sets the hook flags from the method set; hooks do not reassign the handle's Statement or CurDestIndex (K3 writers sweep proves no /repo function other than the listed ones does)", "4/C13"),
 'C14': ('contract-based deductive verification: ghost lock-state contracts on PreparedStmtDB.prepare/ExecContext/QueryContext/Reset/Close and PreparedStmtTX (map access only under the mutex, no blocking call while it is held, mutex free at every return, in-progress entry closed exactly once, failed preparation evicted and reported, usable entries reused, every cached entry handed to a closer that waits for its preparation, Reset empties the shared map in place), SMT-discharged',
         'Proof of the per-function premises of the monitor argument (DESIGN 4/C14) with interference (arbitrary shared-state change) at every lock acquisition and blocking point. The composition over schedules (deadlock freedom, at-most-one prepare per text) is a paper argument and NOT decided.',
         'goroutine interleaving semantics; fairness; database/sql', "4/C14"),
 'C17': ("contract-based deductive verification: full K1 proof of getRIndex (with bounds safety); the ordering algorithm sortCallbacks is covered by a bounded stand-in on the real Register/Before/After/Replace/Remove",
         "Proof that getRIndex returns the last index of a name or -1 (every ordering decision rests on it). The ordering property itself is NOT proved: it is checked exhaustively for all registration sequences up to length 2 (quick) / 3 (thorough) on the real code, labelled bounded.",
         "sortCallbacks' recursive rewriting is outside the verifier's reach (DESIGN 4/C17)", "4/C17"),
 'C15': ("contract-based deductive verification: functional contract of clause.Limit.MergeClause; nonlinear loop-invariant proof on DB.FindInBatches (every batch query asks for between 1 and the requested number of rows; only full batches precede a shortened last one); the equality with Find's rows decided by a bounded differential stand-in on SQLite",
         "Proof, for all inputs, that later positive Limit/Offset values override and negative values cancel, and that FindInBatches never issues a batch query for 0, a negative or more than the requested number of rows, for all batch sizes, limits and row counts (assuming the database returns at most LIMIT rows). That the batches together are exactly Find's rows is a statement about the database: checked exhaustively on SQLite for all table sizes, batch sizes, limits and offsets up to 4 (quick) / 6 (thorough), labelled bounded (it found F9, fixed).",
         'the database returns at most LIMIT rows and the callback does not touch the query handle (assume-after clauses, listed in the evidence); Count/First/Last/Pluck/Rows agreement not under contract', "4/C15"),
 'C16': ('contract-based deductive verification: value-preservation contract of Statement.clone (chain state incl. Attrs/Assign survives Session/WithContext; every clause copied, by visited-set invariant); ghost-protocol contracts on FirstOrCreate (at most one write) and FirstOrInit (no write); site obligations (both look up one row in primary-key order; Save inserts only through ON CONFLICT UPDATE ALL), SMT-discharged',
         "Proof that every derivation carries the whole chain state to the derived statement, that FirstOrInit never calls Create/Updates, FirstOrCreate calls at most one of them once, both search with LIMIT 1 ordered by primary key, and Save's insert path is the all-fields upsert.",
         'database upsert semantics; which branch the found/not-found result selects is read from RowsAffected/Error as reported by the query', "4/C16"),
 'C18': ("contract-based deductive verification: site obligations at every driver call (callbacks, Begin, Connection, prepared-statement wrappers) that the context argument is the statement's/caller's context + derivation contracts (clone/getInstance/Session), SMT-discharged",
         "Proof that every ExecContext/QueryContext/QueryRowContext/PrepareContext/StmtContext/BeginTx/Conn call in /repo passes the context of the handle the operation started from, and that every derivation keeps or deliberately replaces that context.",
         "database/sql honours cancellation; internal sessions of preload/associations not yet swept", "4/C18"),
 'C20': ("contract-based deductive verification (guard structure only): ghost-protocol site obligations on migrator.AutoMigrate and its per-model closure (CreateTable / AddColumn / CreateConstraint / CreateIndex are reached only after the corresponding probe, asked about the same object, reported it missing), a sweep that AutoMigrate and MigrateColumn never call a Drop*/Rename* method, K3 writers sweeps for the names of parsed indexes and constraints, SMT-discharged",
         "Proof of the guard-structure lemma of DESIGN 4/C20 only: whatever the models, AutoMigrate asks the dialect to create exactly those tables, columns, constraints and indexes that its own probes report missing, and asks for nothing destructive. That the probes answer truthfully, what the DDL does to existing rows, and MigrateColumn's decision to alter a column (type/size/default comparison) are the dialect migrator's and the SQL engine's and are NOT decided.",
         "probes (HasTable, ColumnTypes, HasConstraint, HasIndex) and DDL are dialect code outside /repo; MigrateColumn's alter decisions; reflection-driven model reordering", "4/C20"),
 'C19': ("contract-based deductive verification: site obligations that every driver call in callbacks is dominated by !DryRun and every implicit Begin/Commit/Rollback by !SkipDefaultTransaction on the same Config; Session propagates both flags, SMT-discharged",
         "Proof that no callback executor reaches the driver in DryRun mode and that the session flags ToSQL sets are the ones the executors test.",
         "same-text part (no DryRun-dependent write to SQL/Vars) not yet mechanised", "4/C19"),
}

# additions made after the first version of the table above (appended to the level text)
extra = {
 'C10': " Also proved: Save selects every field unless the chain itself selected some (Omit is not a selection).",
 'C06': " Also proved: Count removes clauses only from the statement of the instance it made; BuildCondition runs the scopes of a *DB argument on an instance and writes condition lists only in arrays it allocated.",
 'C02': " Also proved: each chain call adds its conditions as one unit (Where as built, Not over all of them, Or one OR unit holding their AND group).",
 'C01': " Also proved: the placeholders of an already rendered text (raw sub-query in AddVar, ON conditions of a relation join) are rewritten one per bound value. AddVar itself writes only punctuation, \"(NULL)\" and the text a sub-query rendered, and neither it nor any clause builder converts a value to text (strconv/fmt sweep).",
 'C03': " Also proved: values of a slice of maps are stored at their own row/column position; without RETURNING the generated key given to the k-th key-less record is the reported id moved by k increments (both walking directions). Schema.LookUpField resolves a name as a column name first and a field name second (functional contract); after ON CONFLICT DO NOTHING a returned row goes to a record whose returning values are all unset; LastInsertId is read back only when a row was inserted.",
 'C04': " Also proved: Commit/Rollback never call into a typed-nil transaction (failed BEGIN); SAVEPOINT / ROLLBACK TO of a nested block run on the caller's handle (same context and connection). A failed COMMIT of the block is returned.",
 'C05': " Also proved: the error returned by the statement's ExecContext/QueryContext reaches AddError in Create/Update/Delete/Query/RawExec; gorm:begin_transaction is registered first and gorm:commit_or_rollback_transaction last in the create/update/delete pipelines; several batches run in one wrapping transaction. Session writes only its own copy of the configuration; a failed COMMIT of a Transaction block is returned; the error of a cascaded delete is recorded on the operation.",
 'C08': " Also proved: the ON clause of an association join is built after the joined model's query modifiers (soft-delete filter) on every path; the raw-condition grouping harness of C02 is run for C08 as well (bounded).",
 'C09': " Also proved: Delete and the soft-delete UPDATE derive key conditions first from the deleted value, then from the Model value, each only when key values were found; Update adds a key condition only for a record whose key is set. Scopes of a *DB passed as a condition are run on an instance, never on the reusable handle (finding F7).",
 'C11': " Also proved: Statement.clone copies every preload into a map of its own. The handle of a nested preload keeps the query's Unscoped flag; records of a joined relation are preloaded with the join names below that relation.",
 'C12': " Also checked (thin structural sweeps): the fixed value of a reference (polymorphic owner type) is stored into the equality conditions of Delete/Replace; a many-to-many Replace identifies the kept targets by the fields the join table references.",
 'C13': " Also proved: batches run without a wrapping transaction only when a single batch suffices; each hook flag of a schema is looked up by the hook's own name. A hook that ran is reported as called (it is not run a second time on the pointer); the error of a cascaded delete is recorded.",
 'C14': " Also proved: a statement evicted after driver.ErrBadConn is handed to a closer (all four Exec/Query wrappers).",
 'C15': " Also proved: OrderBy.MergeClause accumulates columns in call order in the chain's own list (functional contract); First/Last/Take ask for one row in ascending/descending/no key order and raise not-found; Count restores ORDER BY and SELECT on a chain in progress; Scan records the cursor's error when the first Next is false. Statement.clone keeps Distinct; BuildQuerySQL uses the plain FROM only when there is no join of either kind; FindInBatches groups the chain's conditions before the loop when one of them is an OR (hasOrCondition proved to find an OR unit iff there is one; finding F16, fixed) and adds the key condition to that handle; the bounded differential run includes chains with Or.",
 'C16': " Also proved: Save enters the UPDATE path for a struct only after every primary field of the value was read and found non-zero. The generated key is read back only after an insert; FirstOrInit/FirstOrCreate apply conditions, Attrs and Assign one list at a time.",
 'C17': " Also proved: the '*' pre-sort of sortCallbacks is a stable sort (no unstable sort of the callback list anywhere); the bounded harness also drives Before/After(x).Replace.",
 'C18': " Also proved: SAVEPOINT / ROLLBACK TO of a nested Transaction are issued through the receiver itself (same context).",
 'C19': " Also proved: Config.DryRun is read only at the driver-call gates, in Execute's epilogue, Save, Row and Rows; a real run clears the built text and values, a dry run keeps them; ToSQL hands its callback a DryRun session of the receiver's own chain.",
 'C20': " Also proved: the index pass runs after every column and constraint step; bool defaults are compared as parsed values.",
}
na_reason = {
 'C07': "quantifies over goroutine schedules and data races; sequential contracts cannot decide it (DESIGN.md section 5)",
}
m = {
 "version": 1,
 "setup_cmd": "cd /verif/engine && GOFLAGS=-mod=vendor GOPROXY=off GOSUMDB=off GOTOOLCHAIN=local go build -o /verif/bin/gvc .",
 "hooks": {
  "guard": "verif",
  "enable": "contract files /repo/**/zz_contracts_verif.go carry '//go:build verif' and contain only //@ comment lines; gvc loads /repo with -tags verif",
  "baseline_off_cmd": "cd /repo && GOFLAGS=-mod=mod GOPROXY=off GOSUMDB=off go test -vet=off -count=1 ./... && cd /repo/tests && GOFLAGS=-mod=mod GOPROXY=off GOSUMDB=off go test -vet=off -count=1 ./...",
  "source_commits": [],
  "add_only": True
 },
 "engines": [{"name": "gvc", "path": "/verif/engine", "serves_properties": sorted(claimed), "kind_free_text": "verification-condition generator for Go (go/ssa -> SMT-LIB, contracts as //@ comments), discharged by z3 4.8.12 / z3 5.1.0 / cvc5"}],
 "checks": [],
 "notes": "see DESIGN.md; known findings in /verif/known_findings.txt",
 "not_applicable": []
}
try:
    hooks = subprocess.run(['git','-C','/repo','log','--format=%h %s','--grep=^hook:'],capture_output=True,text=True).stdout.strip().splitlines()
    m['hooks']['source_commits'] = [h.split()[0] for h in hooks]
except Exception: pass
for pid in sorted(props):
    if pid in claimed:
        tech, text, note, ref = claimed[pid]
        m['checks'].append({
          "property_id": pid,
          "quick_cmd": f"/verif/bin/gvc check {pid} --tier quick",
          "thorough_cmd": f"/verif/bin/gvc check {pid} --tier thorough",
          "evidence_file": f"/verif/evidence/{pid}.json",
          "replay_cmd_template": "/verif/bin/gvc replay {path}",
          "engine": "gvc",
          "level_claimed": {"category": "proof", "text": text + extra.get(pid, ""), "design_ref": ref},
          "level_note": note,
          "technique": tech})
    else:
        m['not_applicable'].append({"property_id": pid, "reason": na_reason.get(pid, "check not built yet (work in progress)")})
json.dump(m, open('/verif/MANIFEST.json','w'), indent=1)
print("checks:", [c['property_id'] for c in m['checks']])
