package main

import (
	"os"
	"fmt"
	"sort"
	"go/token"
	"go/types"
	"strings"

	"golang.org/x/tools/go/ssa"
)

// ---------- calls ----------

func (vc *VC) callInstr(act *Act, st *State, i *ssa.Call) {
	common := &i.Call
	var args []Val
	for _, a := range common.Args {
		args = append(args, vc.val(act, a))
	}
	var fnVal Val
	if _, ok := common.Value.(*ssa.Builtin); !ok {
		fnVal = vc.val(act, common.Value)
	}
	res := vc.callValue(act, st, common, fnVal, args, i, false)
	if res != nil {
		act.env[i] = res
	} else if sig := common.Signature(); sig != nil && sig.Results().Len() > 0 {
		unsupp("call produced no value: %s", i)
	}
}

// callValue dispatches one call. Returns the result value (nil for no result).
func (vc *VC) callValue(act *Act, st *State, common *ssa.CallCommon, fnVal Val, args []Val, site ssa.Instruction, deferred bool) Val {
	if bi, ok := common.Value.(*ssa.Builtin); ok {
		return vc.builtin(act, st, bi, common, args, site)
	}
	sig := common.Signature()
	var resT types.Type
	switch sig.Results().Len() {
	case 0:
	case 1:
		resT = sig.Results().At(0).Type()
	default:
		resT = sig.Results()
	}
	argTypes := make([]types.Type, len(common.Args))
	for k, a := range common.Args {
		argTypes[k] = a.Type()
	}
	if common.IsInvoke() {
		recv := fnVal.(IfaceV)
		key := vc.eng.ifaceKey(common.Value.Type(), common.Method.Name())
		if fn, dt := vc.devirtualize(recv, common.Method); fn != nil && len(vc.eng.eventsFor("invoke", key)) == 0 && len(vc.eng.sitesFor("invoke "+key, act.fn, vc.root)) == 0 {
			// the receiver's dynamic type is known here: dispatch statically
			payload := vc.unbox(st, recv, dt)
			dargs := append([]Val{payload}, args...)
			dtypes := append([]types.Type{dt}, argTypes...)
			return vc.callStatic(act, st, fn, nil, dargs, dtypes, resT, fn.Signature, site, nil)
		}
		vc.siteCheck(act, st, "invoke "+key, site, common, args, argTypes, recv, common.Value.Type())
		allArgs := append([]Val{recv}, args...)
		allTypes := append([]types.Type{common.Value.Type()}, argTypes...)
		evs := vc.eng.eventsFor("invoke", key)
		pre := st.clone()
		var res Val
		if fc := vc.eng.ifaceContract(common.Value.Type(), common.Method.Name()); fc != nil {
			names := fc.ParamNames
			if len(names) == 0 {
				names = []string{"recv"}
				for k := 0; k < sig.Params().Len(); k++ {
					n := sig.Params().At(k).Name()
					if n == "" || n == "_" {
						n = fmt.Sprintf("arg%d", k)
					}
					names = append(names, n)
				}
			}
			res = vc.applyContract(act, st, fc, names, allArgs, allTypes, resT, sig, site, "invoke "+key)
		} else {
			vc.maybePanicFork(act, st, "invoke "+key, site)
			// interface callees fire ghost events only through events declared for the call shape
			res = vc.defaultCall(act, st, resT, "invoke "+key, true)
		}
		for _, ev := range evs {
			vc.applyEvent(act, st, pre, ev, allArgs, allTypes, res, resT, site)
		}
		return res
	}
	callee := common.StaticCallee()
	if callee != nil {
		return vc.callStatic(act, st, callee, fnVal, args, argTypes, resT, sig, site, common)
	}
	// dynamic call through a function value
	if cv, ok := fnVal.(ClosureV); ok && len(cv.fn.Blocks) > 0 && act.depth < 6 {
		if fc := vc.eng.contractFor(cv.fn); fc == nil {
			return vc.inline(act, st, cv.fn, args, cv.bind, resT)
		}
	}
	name := "dynamic"
	if _, isParam := common.Value.(*ssa.Parameter); !isParam {
		if fc, ok := vc.eng.contracts.Externs["fnfield "+vc.dynName(common.Value)]; ok {
			names := fc.ParamNames
			if len(names) == 0 {
				for k := range args {
					names = append(names, fmt.Sprintf("arg%d", k))
				}
			}
			vc.used["function-field contract "+fc.Key] = true
			return vc.applyContract(act, st, fc, names, args, argTypes, resT, sig, site, "fnfield "+vc.dynName(common.Value))
		}
	}
	if p, ok := common.Value.(*ssa.Parameter); ok {
		name = "param " + p.Name()
		vc.siteCheck(act, st, "callparam "+p.Name(), site, common, args, argTypes, nil, nil)
		if act.mayPanic[p.Name()] {
			vc.panicFork(act, st, name, site)
		}
	} else {
		name = "dynamic " + vc.dynName(common.Value)
		vc.siteCheck(act, st, "calldyn "+vc.dynName(common.Value), site, common, args, argTypes, nil, nil)
	}
	pre := st.clone()
	res := vc.defaultCall(act, st, resT, name, true)
	if strings.HasPrefix(name, "param ") {
		for _, ev := range vc.eng.eventsFor("callparam", strings.TrimPrefix(name, "param ")) {
			vc.applyEvent(act, st, pre, ev, args, argTypes, res, resT, site)
		}
		vc.siteAssumeAfter(act, st, pre, "callparam "+strings.TrimPrefix(name, "param "), args, argTypes, res, resT)
	} else {
		for _, ev := range vc.eng.eventsFor("calldyn", strings.TrimPrefix(name, "dynamic ")) {
			vc.applyEvent(act, st, pre, ev, args, argTypes, res, resT, site)
		}
		vc.siteAssumeAfter(act, st, pre, "calldyn "+strings.TrimPrefix(name, "dynamic "), args, argTypes, res, resT)
	}
	return res
}

func (vc *VC) dynName(v ssa.Value) string { return dynNameOf(v) }

func paramTypes(fn *ssa.Function) []types.Type {
	out := make([]types.Type, len(fn.Params))
	for k, p := range fn.Params {
		out[k] = p.Type()
	}
	return out
}

// callStatic: a call whose callee is known (static call, or an interface call on a value whose
// dynamic type is known at this point).
func (vc *VC) callStatic(act *Act, st *State, callee *ssa.Function, fnVal Val, args []Val, argTypes []types.Type, resT types.Type, sig *types.Signature, site ssa.Instruction, common *ssa.CallCommon) Val {
	{
		key := vc.eng.shortName(callee)
		vc.siteCheck(act, st, "call "+key, site, common, args, argTypes, nil, nil)
		evs := vc.eng.eventsFor("call", vc.eng.eventKeyOf(callee))
		pre := st.clone()
		var res Val
		handled := false
		if cv, ok := fnVal.(ClosureV); ok && len(callee.Blocks) > 0 && vc.eng.contractFor(callee) == nil {
			res = vc.inline(act, st, callee, args, cv.bind, resT)
			handled = true
		}
		if !handled {
			if fc := vc.eng.contractFor(callee); fc != nil {
				if (fc.Inline || vc.inlineRequested(callee)) && len(callee.Blocks) > 0 && act.depth < 6 {
					res = vc.inline(act, st, callee, args, nil, resT)
				} else {
					names := make([]string, len(callee.Params))
					for k, p := range callee.Params {
						names[k] = p.Name()
					}
					if cv, ok := fnVal.(ClosureV); ok {
						vc.closureCtx = &cv // the contract of a closure may mention its captured variables
					}
					res = vc.applyContract(act, st, fc, names, args, paramTypes(callee), resT, sig, site, "call "+key)
					vc.closureCtx = nil
				}
			} else if ic := vc.eng.ifaceContractOfImpl(callee); ic != nil && !(ic.Pure && trivialBody(callee)) {
				names := ic.ParamNames
				if len(names) == 0 {
					for k := range args {
						names = append(names, fmt.Sprintf("arg%d", k))
					}
				}
				res = vc.applyContract(act, st, ic, names, args, paramTypes(callee), resT, sig, site, "call "+key)
			} else if ec := vc.eng.externFor(callee); ec != nil && ec.CallbackLoop {
				res = vc.callbackLoop(act, st, callee, ec, args, argTypes, resT, site)
				vc.used["extern:"+callee.String()] = true
			} else if ec := vc.eng.externFor(callee); ec != nil {
				names := ec.ParamNames
				if len(names) == 0 {
					for k := range args {
						names = append(names, fmt.Sprintf("arg%d", k))
					}
				}
				res = vc.applyContract(act, st, ec, names, args, argTypes, resT, sig, site, "extern "+callee.String())
				vc.used["extern:"+callee.String()] = true
			} else if r, ok := vc.intrinsic(act, st, callee, args, argTypes, resT, site); ok {
				res = r
			} else if vc.eng.autoPure(callee) && trivialBody(callee) && act.depth < 6 {
				// a mechanically pure, loop-free, tiny callee (accessor, Name()): evaluated in place
				res = vc.inline(act, st, callee, args, nil, resT)
				vc.used["auto-pure (inlined):"+vc.eng.shortName(callee)] = true
			} else if vc.eng.autoPure(callee) {
				// mechanically pure callee: no heap effect; it may allocate
				old := st.top
				st.top = vc.fresh("top", "Int")
				vc.assume(st, fmt.Sprintf("(>= %s %s)", st.top, old))
				if resT != nil {
					res = vc.freshVal(st, "ret", resT)
				}
				vc.used["auto-pure:"+vc.eng.shortName(callee)] = true
			} else {
				// a callee that is itself a declared event is abstracted by that event; any other
				// callee that can (statically) reach an event site invalidates the ghost state
				res = vc.defaultCall(act, st, resT, "call "+callee.String(), true)
				if len(evs) == 0 {
					var gs []string
					for g := range vc.eng.reachableGhosts(callee) {
						gs = append(gs, g)
					}
					sort.Strings(gs)
					for _, g := range gs {
						st.ghost[g] = vc.fresh("gh_"+g, "Int")
					}
				}
			}
		}
		for _, ev := range evs {
			vc.applyEvent(act, st, pre, ev, args, argTypes, res, resT, site)
		}
		vc.keepOwnedResults(st, pre, callee, res, resT, site)
		vc.siteAssumeAfter(act, st, pre, "call "+key, args, argTypes, res, resT)
		return res
	}
}

// siteAssumeAfter: `assume-after` clauses of the sites matching this call state facts about its result
// that no code in the repository decides (what the database returns); they are assumed and listed.
func (vc *VC) siteAssumeAfter(act *Act, st, pre *State, shape string, args []Val, argTypes []types.Type, res Val, resT types.Type) {
	for _, s := range vc.eng.sitesFor(shape, act.fn, vc.root) {
		if len(s.AssumeAfter) == 0 {
			continue
		}
		env := vc.specEnv(act, st, pre, "site", nil) // old(...) is the state just before the call
		for k := range args {
			var t types.Type
			if k < len(argTypes) {
				t = argTypes[k]
			}
			env.vars[fmt.Sprintf("arg%d", k)] = TV{args[k], t}
		}
		if res != nil {
			bindResults(env, res, resT, nil)
		}
		for n, a := range s.AssumeAfter {
			vc.assume(st, vc.evalBool(env, a))
			vc.used[fmt.Sprintf("assumed at %s (%s): %s", shape, clauseName(a, n), a.Text)] = true
		}
	}
}

// keepOwnedResults: a result the callee made and kept no reference to, and that the caller only reads,
// is private to the caller from here on (see owned.go).
func (vc *VC) keepOwnedResults(st, pre *State, callee *ssa.Function, res Val, resT types.Type, site ssa.Instruction) {
	cv, ok := site.(ssa.Value)
	if !ok || res == nil || len(callee.Blocks) == 0 || os.Getenv("GVC_NOOWN") != "" {
		return
	}
	if callee.Pkg == nil || !isRepoPkg(callee.Pkg.Pkg.Path()) {
		return // only code of the repository is analysed; library functions need a stated contract
	}
	keep := func(k int, v Val, t types.Type, use ssa.Value) {
		if !refLike(t) || use == nil || !vc.eng.ownedResult(callee, k) || !vc.eng.confined(use, false, map[ssa.Value]bool{}) {
			return
		}
		r := refOf(v)
		if !isAtom(r) || r == "0" {
			return
		}
		vc.assume(st, fmt.Sprintf("(or (= %s 0) (>= %s %s))", r, r, pre.top))
		vc.assume(st, fmt.Sprintf("(< %s %s)", r, st.top))
		st.kept[r] = true
		vc.used[fmt.Sprintf("ownership analysis: result %d of %s is an object made by the callee that nothing else refers to; the caller only reads it", k, vc.eng.shortName(callee))] = true
	}
	if tup, ok := resT.(*types.Tuple); ok {
		tv, ok := res.(TupleV)
		if !ok {
			return
		}
		for k := 0; k < tup.Len(); k++ {
			var use ssa.Value
			if refs := cv.Referrers(); refs != nil {
				for _, u := range *refs {
					if ex, ok := u.(*ssa.Extract); ok && ex.Index == k {
						use = ex
					}
				}
			}
			keep(k, tv.f[k], tup.At(k).Type(), use)
		}
		return
	}
	keep(0, res, resT, cv)
}

func (vc *VC) inlineRequested(callee *ssa.Function) bool {
	if vc.fc == nil {
		return false
	}
	k := vc.eng.keyOf(callee)
	for _, x := range vc.fc.InlineCalls {
		if x == k || x == vc.eng.shortName(callee) {
			return true
		}
	}
	return false
}

// trivialBody: at most two blocks, no loops, no calls other than builtins.
func trivialBody(fn *ssa.Function) bool {
	if len(fn.Blocks) == 0 || len(fn.Blocks) > 3 {
		return false
	}
	n := 0
	for _, b := range fn.Blocks {
		if isLoopHeader(b) {
			return false
		}
		for _, ins := range b.Instrs {
			n++
			if c, ok := ins.(*ssa.Call); ok {
				if _, isB := c.Call.Value.(*ssa.Builtin); !isB {
					return false
				}
			}
		}
	}
	return n <= 24
}

// devirtualize: the method an interface call dispatches to when the receiver's dynamic type is known.
func (vc *VC) devirtualize(recv IfaceV, method *types.Func) (*ssa.Function, types.Type) {
	id, err := parseInt(recv.tag)
	if err != nil || id <= 0 {
		return nil, nil
	}
	t, ok := vc.eng.typeByID[int(id)]
	if !ok || types.IsInterface(t) {
		return nil, nil
	}
	sel := vc.eng.prog.MethodSets.MethodSet(t).Lookup(method.Pkg(), method.Name())
	if sel == nil {
		return nil, nil
	}
	fn := vc.eng.prog.MethodValue(sel)
	if fn == nil || len(fn.Blocks) == 0 || fn.Synthetic != "" {
		return nil, nil
	}
	return fn, t
}

// defaultCall: the callee may modify everything except non-escaping locals; result unconstrained.
func (vc *VC) defaultCall(act *Act, st *State, resT types.Type, why string, keepGhost bool) Val {
	if vc.frameActive() {
		// a callee without a frame is acceptable only when the caller's frame is 'everything'
		ok := !vc.frameOn
		for _, it := range vc.frame {
			if it.kind == "everything" {
				ok = true
			}
		}
		for _, lf := range vc.loopFrames {
			lok := false
			for _, it := range lf.items {
				if it.kind == "everything" {
					lok = true
				}
			}
			ok = ok && lok
		}
		if !ok {
			n := vc.counts["frame#call-noframe"]
			vc.counts["frame#call-noframe"]++
			vc.oblige(st, &Obligation{Name: fmt.Sprintf("%s#frame#callee-without-frame#%s#%d", vc.eng.shortName(vc.root), sanitize(why), n), Kind: "frame", Tags: vc.frameTags(), Clause: "callee " + why + " has no contract: default frame is 'everything'"}, "false")
		}
	}
	vc.havocAll(st, why)
	if !keepGhost {
		for _, g := range vc.eng.contracts.Ghosts {
			st.ghost[g] = vc.fresh("gh_"+g, "Int")
		}
	}
	if resT == nil {
		return nil
	}
	return vc.freshVal(st, "ret", resT)
}

func (vc *VC) maybePanicFork(act *Act, st *State, name string, site ssa.Instruction) {
	if act.mayPanic[name] {
		vc.panicFork(act, st, name, site)
	}
}

// panicFork: the call may panic; on that edge the registered defers run and the function exits exceptionally.
func (vc *VC) panicFork(act *Act, st *State, name string, site ssa.Instruction) {
	root := act
	for root.parent != nil {
		root = root.parent
	}
	pk := vc.fresh("panics", "Bool")
	ps := st.clone()
	ps.guard = vc.def("g", "Bool", and(st.guard, pk))
	vc.havocAll(ps, "panicking "+name)
	// count the call as an event even on the panic edge
	for _, ev := range vc.eng.eventsFor("callparam", strings.TrimPrefix(name, "param ")) {
		vc.applyEvent(act, ps, ps, ev, nil, nil, nil, nil, site)
	}
	vc.runDefers(act, ps)
	for a := act.parent; a != nil; a = a.parent {
		vc.runDefers(a, ps)
	}
	root.exits = append(root.exits, &Exit{st: ps, panic: true, site: site, desc: "panic in " + name + " @" + vc.srcPos(site.Pos())})
	st.guard = vc.def("g", "Bool", and(st.guard, not(pk)))
}

// inline evaluates a callee body in place and merges its normal exits.
func (vc *VC) inline(act *Act, st *State, fn *ssa.Function, args []Val, bind []Val, resT types.Type) Val {
	if act.depth > 8 {
		unsupp("inline depth exceeded at %s", fn)
	}
	sub := vc.newAct(fn, act)
	sub.fc = nil
	if fc := vc.eng.contractFor(fn); fc != nil && fc.Inline {
		sub.fc = fc // loop invariants of an inlined callee are checked in the caller's context
	}
	sub.mayPanic = act.mayPanic
	for k, p := range fn.Params {
		sub.env[p] = args[k]
	}
	for k, fv := range fn.FreeVars {
		if k < len(bind) {
			sub.env[fv] = bind[k]
		}
	}
	vc.eng.curScope = append(vc.eng.curScope, fn)
	vc.runBody(sub, st.clone())
	vc.eng.curScope = vc.eng.curScope[:len(vc.eng.curScope)-1]
	var sts []*State
	var rets []Val
	for _, e := range sub.exits {
		if e.panic {
			root := act
			for root.parent != nil {
				root = root.parent
			}
			root.exits = append(root.exits, e)
			continue
		}
		sts = append(sts, e.st)
		if resT != nil {
			if len(e.ret) == 1 {
				rets = append(rets, e.ret[0])
			} else {
				rets = append(rets, TupleV{e.ret})
			}
		}
	}
	m := vc.mergeStates(sts)
	*st = *m
	if resT == nil || len(rets) == 0 {
		if resT != nil {
			return zeroVal(resT)
		}
		return nil
	}
	var live []*State
	var lrets []Val
	for k, s := range sts {
		if !s.dead && s.guard != "false" {
			live = append(live, s)
			lrets = append(lrets, rets[k])
		}
	}
	if len(lrets) == 0 {
		return zeroVal(resT)
	}
	return vc.mergeVals(live, lrets)
}

// ---------- builtins ----------
func (vc *VC) builtin(act *Act, st *State, bi *ssa.Builtin, common *ssa.CallCommon, args []Val, site ssa.Instruction) Val {
	switch bi.Name() {
	case "len":
		switch x := args[0].(type) {
		case SliceV:
			return IntV{x.ln}
		case IntV:
			if isString(common.Args[0].Type()) {
				return IntV{vc.strLen(st, x.t)}
			}
			r := vc.fresh("chlen", "Int")
			vc.assume(st, fmt.Sprintf("(>= %s 0)", r))
			return IntV{r}
		case MapV:
			vc.declareFun("maplen", "((Array Int Int)) Int")
			r := vc.def("mlen", "Int", fmt.Sprintf("(maplen (select %s %s))", st.mi, x.ref))
			vc.assume(st, fmt.Sprintf("(>= %s 0)", r))
			vc.assume(st, implies(eq(x.ref, "0"), eq(r, "0")))
			return IntV{r}
		case PtrV:
			arr := common.Args[0].Type().Underlying().(*types.Pointer).Elem().Underlying().(*types.Array)
			return IntV{fmt.Sprint(arr.Len())}
		case StructV:
			return IntV{fmt.Sprint(len(x.f))}
		}
	case "cap":
		if x, ok := args[0].(SliceV); ok {
			return IntV{x.cp}
		}
	case "delete":
		m := args[0].(MapV)
		mt := common.Args[0].Type().Underlying().(*types.Map)
		vc.fireMapEvent(act, st, "mapdelete", common.Args[0], site)
		// sites see the map (arg0), the key (arg1) and, as recv, the struct the map was loaded from
		{
			var recv Val
			var recvT types.Type
			if u, ok := common.Args[0].(*ssa.UnOp); ok {
				if fa, ok := u.X.(*ssa.FieldAddr); ok {
					recv, recvT = vc.val(act, fa.X), fa.X.Type()
				}
			}
			vc.siteCheck(act, st, "mapdelete "+mapWhatOf(common.Args[0]), site, nil, []Val{args[0], args[1]}, []types.Type{common.Args[0].Type(), common.Args[1].Type()}, recv, recvT)
		}
		key := vc.mapKey(st, args[1], mt.Key())
		w := width(mt.Elem()) + 1
		base := vc.mapSlot(key, w)
		vc.frameCheck(st, m.ref, "", "", "mapdelete", vc.mapWhat(common.Args[0]), site.Pos())
		st.mi = vc.def("MI", memSort, fmt.Sprintf("(store %s %s (store (select %s %s) %s 0))", st.mi, m.ref, st.mi, m.ref, base))
		return nil
	case "close":
		vc.fireEvent(act, st, "close", "", nil, args, site)
		return nil
	case "panic":
		return nil
	case "recover":
		return IfaceV{"0", "0"}
	case "print", "println":
		return nil
	case "min", "max":
		a, b := args[0].(IntV).t, args[1].(IntV).t
		if bi.Name() == "min" {
			return IntV{ite(fmt.Sprintf("(< %s %s)", a, b), a, b)}
		}
		return IntV{ite(fmt.Sprintf("(> %s %s)", a, b), a, b)}
	case "copy":
		dst := args[0].(SliceV)
		var src SliceV
		switch s := args[1].(type) {
		case SliceV:
			src = s
		default:
			unsupp("copy from string")
		}
		w := width(common.Args[0].Type().Underlying().(*types.Slice).Elem())
		n := vc.def("ncopy", "Int", ite(fmt.Sprintf("(< %s %s)", dst.ln, src.ln), dst.ln, src.ln))
		if vc.frameActive() && !st.kept[dst.ref] {
			f := or(eq(n, "0"), vc.inFrame(dst.ref, "", ""))
			k := vc.counts["frame#copy"]
			vc.counts["frame#copy"]++
			vc.oblige(st, &Obligation{Name: fmt.Sprintf("%s#frame#copy#%d", vc.eng.shortName(vc.root), k), Kind: "frame", Src: vc.srcPos(site.Pos()), Tags: vc.frameTags(), Clause: "modifies " + vc.frameText()}, f)
		}
		vc.rangeWrite(st, dst.ref, fmt.Sprintf("(* %s %d)", dst.off, w), fmt.Sprintf("(* %s %d)", n, w), src.ref, fmt.Sprintf("(* %s %d)", src.off, w))
		return IntV{n}
	case "append":
		base := args[0].(SliceV)
		var more SliceV
		switch m := args[1].(type) {
		case SliceV:
			more = m
		default:
			unsupp("append string to []byte")
		}
		el := common.Args[0].Type().Underlying().(*types.Slice).Elem()
		w := width(el)
		newLen := vc.def("alen", "Int", fmt.Sprintf("(+ %s %s)", base.ln, more.ln))
		fits := vc.def("fits", "Bool", fmt.Sprintf("(<= %s %s)", newLen, base.cp))
		// in place
		sa := st.clone()
		sa.guard = vc.def("g", "Bool", and(st.guard, fits))
		if vc.frameActive() && !st.kept[base.ref] {
			f := or(eq(more.ln, "0"), vc.inFrame(base.ref, "", ""))
			k := vc.counts["frame#append"]
			vc.counts["frame#append"]++
			vc.oblige(sa, &Obligation{Name: fmt.Sprintf("%s#frame#append-in-place#%d", vc.eng.shortName(vc.root), k), Kind: "frame", Src: vc.srcPos(site.Pos()), Tags: vc.frameTags(), Clause: "modifies " + vc.frameText(),
				Info: map[string]string{"replay": "append", "base_len": base.ln, "base_cap": base.cp, "more_len": more.ln}}, f)
		}
		vc.rangeWrite(sa, base.ref, fmt.Sprintf("(* (+ %s %s) %d)", base.off, base.ln, w), fmt.Sprintf("(* %s %d)", more.ln, w), more.ref, fmt.Sprintf("(* %s %d)", more.off, w))
		// reallocate
		sb := st.clone()
		sb.guard = vc.def("g", "Bool", and(st.guard, not(fits)))
		ref := vc.allocArray(sb, el)
		ncap := vc.fresh("ncap", "Int")
		vc.assume(sb, fmt.Sprintf("(>= %s %s)", ncap, newLen))
		vc.rangeWrite(sb, ref, "0", fmt.Sprintf("(* %s %d)", base.ln, w), base.ref, fmt.Sprintf("(* %s %d)", base.off, w))
		vc.rangeWrite(sb, ref, fmt.Sprintf("(* %s %d)", base.ln, w), fmt.Sprintf("(* %s %d)", more.ln, w), more.ref, fmt.Sprintf("(* %s %d)", more.off, w))
		res := iteVal(fits, SliceV{base.ref, base.off, newLen, base.cp}, SliceV{ref, "0", newLen, ncap})
		m := vc.mergeStates([]*State{sa, sb})
		g := st.guard
		*st = *m
		st.guard = g
		ls := flatten(res)
		for k := range ls {
			ls[k] = vc.def("ap", "Int", ls[k])
		}
		return rebuildLike(res, ls)
	}
	unsupp("builtin %s", bi.Name())
	return nil
}

// ---------- contract application at a call site ----------
// applyContract applies a callee contract; a contract with alternatives (funcalt) is applied case
// by case under each case condition and the outcomes are merged.
func (vc *VC) applyContract(act *Act, st *State, fc *FuncContract, names []string, args []Val, argTypes []types.Type, resT types.Type, sig *types.Signature, site ssa.Instruction, what string) Val {
	if fc.When == nil && len(fc.Alts) == 0 {
		return vc.applyContract1(act, st, fc, names, args, argTypes, resT, sig, site, what)
	}
	cases := append([]*FuncContract{fc}, fc.Alts...)
	pre := st.clone()
	conds := make([]string, len(cases))
	for k, c := range cases {
		env := &SpecEnv{vc: vc, st: pre, old: pre, vars: map[string]TV{}, pkg: vc.eng.pkgOfContract(c), allocBase: pre.top, kind: "callsite"}
		for j, n := range names {
			if j < len(args) {
				env.vars[n] = TV{args[j], argTypes[j]}
			}
		}
		if c.When != nil {
			conds[k] = env.evalBoolExpr(c.When.Expr)
		} else {
			conds[k] = "true"
		}
	}
	n := vc.counts["case#"+fc.Key]
	vc.counts["case#"+fc.Key]++
	vc.oblige(st, &Obligation{Name: fmt.Sprintf("%s#precondition#%s#some-case-applies#%d", vc.eng.shortName(act.fn), strings.TrimPrefix(what, "call "), n), Kind: "call-precondition", Clause: "one of the contract cases of " + strings.TrimPrefix(what, "call ") + " applies", Src: vc.srcPos(site.Pos()), Tags: vc.fcTags()}, or(conds...))
	var sts []*State
	var ress []Val
	prior := "true"
	for k, c := range cases {
		if len(vc.asserts) > 1200 && !vc.feasible(and(pre.guard, prior, conds[k])) {
			// the case cannot apply here (decided by the solver from the facts so far): not generated
			prior = and(prior, not(conds[k]))
			vc.pruned++
			continue
		}
		cs := pre.clone()
		cs.guard = vc.def("g", "Bool", and(pre.guard, prior, conds[k]))
		prior = and(prior, not(conds[k]))
		r := vc.applyContract1(act, cs, c, names, args, argTypes, resT, sig, site, what+"/"+c.CaseName)
		sts = append(sts, cs)
		ress = append(ress, r)
	}
	if len(sts) == 0 {
		// no case can apply: the path is dead from here on (the some-case-applies obligation above reports it)
		st.guard = "false"
		if resT == nil {
			return nil
		}
		return vc.freshVal(st, "ret", resT)
	}
	m := vc.mergeStates(sts)
	g := st.guard
	*st = *m
	st.guard = g
	if resT == nil {
		return nil
	}
	var live []*State
	var lres []Val
	for k, s := range sts {
		if !s.dead && s.guard != "false" && ress[k] != nil {
			live = append(live, s)
			lres = append(lres, ress[k])
		}
	}
	if len(lres) == 0 {
		return vc.freshVal(st, "ret", resT)
	}
	return vc.mergeVals(live, lres)
}

func (vc *VC) applyContract1(act *Act, st *State, fc *FuncContract, names []string, args []Val, argTypes []types.Type, resT types.Type, sig *types.Signature, site ssa.Instruction, what string) Val {
	fc.Used = true
	pre := st.clone()
	env := &SpecEnv{vc: vc, st: st, old: pre, vars: map[string]TV{}, pkg: vc.eng.pkgOfContract(fc), allocBase: pre.top, kind: "callsite"}
	for k, n := range names {
		if k < len(args) {
			env.vars[n] = TV{args[k], argTypes[k]}
		}
	}
	// variadic positional aliases
	for k := range args {
		env.vars[fmt.Sprintf("arg%d", k)] = TV{args[k], argTypes[k]}
	}
	if cv := vc.closureCtx; cv != nil {
		for k, fv := range cv.fn.FreeVars {
			if k < len(cv.bind) {
				if p, ok := cv.bind[k].(PtrV); ok {
					et := fv.Type().(*types.Pointer).Elem()
					if _, exists := env.vars[fv.Name()]; !exists {
						env.vars[fv.Name()] = TV{vc.load(pre, p, et), et}
					}
				}
			}
		}
	}
	// lets are evaluated in the pre-state
	pe := *env
	pe.st = pre
	for _, l := range fc.Lets {
		env.vars[l.Name] = pe.evalTV(l.Expr)
		pe.vars[l.Name] = env.vars[l.Name]
	}
	for n, r := range fc.Requires {
		f := pe.evalBoolExpr(r.Expr)
		k := vc.counts["pre#"+fc.Key]
		vc.counts["pre#"+fc.Key]++
		vc.oblige(st, &Obligation{Name: fmt.Sprintf("%s#precondition#%s#%s#%d", vc.eng.shortName(act.fn), fc.Key, clauseName(r, n), k), Kind: "call-precondition", Clause: r.Text, Src: vc.srcPos(site.Pos()), Tags: append(append([]string{}, vc.fcTags()...), r.Tags...)}, f)
	}
	for _, mp := range fc.MayPanic {
		if mp == "self" {
			vc.panicFork(act, st, what, site)
		}
	}
	// frame
	if fc.Pure && len(fc.Modifies) == 0 {
		// no heap effect
		if fc.Allocates {
			old := st.top
			st.top = vc.fresh("top", "Int")
			vc.assume(st, fmt.Sprintf("(>= %s %s)", st.top, old))
		}
	} else if len(fc.Modifies) == 0 {
		vc.callFrameCheck(act, st, []frameItem{{kind: "everything", text: "everything"}}, what, site)
		vc.havocAll(st, what)
		if vc.eng.contractTouchesGhost(fc) {
			for _, g := range vc.eng.contracts.Ghosts {
				st.ghost[g] = vc.fresh("gh_"+g, "Int")
			}
		}
	} else {
		items, ghosts, everything := vc.resolveModifies(&pe, fc.Modifies)
		if everything {
			vc.callFrameCheck(act, st, []frameItem{{kind: "everything", text: "everything"}}, what, site)
			vc.havocAll(st, what)
			vc.havocItems(st, nil, ghosts)
		} else {
			vc.callFrameCheck(act, st, items, what, site)
			vc.havocItems(st, items, ghosts)
		}
	}
	var res Val
	if resT != nil {
		if fc.Functional && allScalar(args) && len(layout(resT)) == 1 {
			var as []string
			for _, a := range args {
				as = append(as, flatten(a)...)
			}
			t := vc.def("fn", "Int", vc.uf("fn_"+sanitize(fc.Key), as...))
			res, _ = unflatten(resT, []string{t})
			vc.assume(st, vc.wf(st, res, resT))
		} else {
			res = vc.freshVal(st, "ret", resT)
		}
		bindResults(env, res, resT, sig)
	}
	env.st = st
	for _, e := range fc.Ensures {
		vc.assume(st, env.evalBoolExpr(e.Expr))
	}
	return res
}

func allScalar(args []Val) bool {
	for _, a := range args {
		switch a.(type) {
		case IntV:
		case IfaceV:
		default:
			return false
		}
	}
	return true
}

func bindResults(env *SpecEnv, res Val, resT types.Type, sig *types.Signature) {
	if tup, ok := resT.(*types.Tuple); ok {
		tv := res.(TupleV)
		for k := 0; k < tup.Len(); k++ {
			env.vars[fmt.Sprintf("result%d", k)] = TV{tv.f[k], tup.At(k).Type()}
			if n := tup.At(k).Name(); n != "" && n != "_" {
				if _, exists := env.vars[n]; !exists {
					env.vars[n] = TV{tv.f[k], tup.At(k).Type()}
				}
			}
		}
		env.vars["result"] = TV{tv.f[0], tup.At(0).Type()}
		return
	}
	env.vars["result"] = TV{res, resT}
	env.vars["result0"] = TV{res, resT}
	if sig != nil && sig.Results().Len() == 1 {
		if n := sig.Results().At(0).Name(); n != "" && n != "_" {
			if _, exists := env.vars[n]; !exists {
				env.vars[n] = TV{res, resT}
			}
		}
	}
}

// callFrameCheck: the callee's frame must lie inside the caller's frame (or be fresh).
func (vc *VC) callFrameCheck(act *Act, st *State, items []frameItem, what string, site ssa.Instruction) {
	if !vc.frameActive() {
		return
	}
	for _, it := range items {
		var f string
		switch it.kind {
		case "everything", "region":
			cover := func(cs []frameItem) string {
				f := "false"
				for _, c := range cs {
					if c.kind == "everything" {
						f = "true"
					}
					if it.kind == "region" && c.kind == "region" {
						f = or(f, eq(it.ref, c.ref))
					}
				}
				return f
			}
			f = "true"
			if vc.frameOn {
				f = and(f, cover(vc.frame))
			}
			for _, lf := range vc.loopFrames {
				f = and(f, cover(lf.items))
			}
		case "obj":
			if st.kept[it.ref] {
				continue
			}
			f = vc.inFrame(it.ref, "", "")
		case "range":
			if st.kept[it.ref] {
				continue
			}
			f = vc.inFrame(it.ref, it.lo, it.hi)
		default:
			continue
		}
		if f == "true" {
			continue
		}
		k := vc.counts["frame#call#"+what]
		vc.counts["frame#call#"+what]++
		vc.oblige(st, &Obligation{Name: fmt.Sprintf("%s#frame#call#%s#%s#%d", vc.eng.shortName(vc.root), sanitize(what), sanitize(it.text), k), Kind: "frame", Src: vc.srcPos(site.Pos()), Tags: vc.frameTags(), Clause: fmt.Sprintf("callee %s modifies %s; caller modifies %s", what, it.text, vc.frameText())}, f)
	}
}

// resolveModifies evaluates modifies clauses in env (its current state) to concrete frame items.
func (vc *VC) resolveModifies(env *SpecEnv, clauses []*Clause) (items []frameItem, ghosts []string, everything bool) {
	for _, c := range clauses {
		for _, it := range c.Items {
			switch it.Kind {
			case "nothing":
			case "everything":
				everything = true
			case "ghost":
				ghosts = append(ghosts, it.Name)
			case "region":
				tv := env.evalTV(it.Expr)
				items = append(items, frameItem{kind: "region", ref: refOf(tv.v), text: it.Text})
			case "deref":
				tv := env.evalTV(it.Expr)
				p, ok := tv.v.(PtrV)
				if !ok {
					specErr("modifies *%s: not a pointer", it.Text)
				}
				if pt, isPtr := tv.t.Underlying().(*types.Pointer); isPtr && !vc.eng.wholeObjectType(pt.Elem()) {
					items = append(items, frameItem{kind: "range", ref: p.ref, lo: p.idx, hi: add(p.idx, width(pt.Elem())), text: it.Text, etype: pt.Elem(), width: width(pt.Elem())})
				} else if isPtr {
					items = append(items, frameItem{kind: "obj", ref: p.ref, text: it.Text, otype: pt.Elem()})
				} else {
					items = append(items, frameItem{kind: "obj", ref: p.ref, text: it.Text})
				}
			case "all":
				tv := env.evalTV(it.Expr)
				fi := frameItem{kind: "obj", ref: refOf(tv.v), text: it.Text}
				switch u := tv.t.Underlying().(type) {
				case *types.Slice:
					fi.otype, fi.otid = types.NewSlice(u.Elem()), vc.eng.arrTid(u.Elem())
				case *types.Map:
					fi.otype, fi.otid = u, vc.eng.mapTid(u)
				}
				items = append(items, fi)
			case "field":
				sel := it.Expr
				ptr, off, w, ot := env.fieldAddrT(sel)
				fi := frameItem{kind: "range", ref: ptr.ref, lo: add(ptr.idx, off), hi: add(ptr.idx, off+w), text: it.Text, width: w}
				if ot != nil && vc.eng.wholeObjectType(ot) {
					fi.otype, fi.flo, fi.fhi = ot, off, off+w
				}
				items = append(items, fi)
			}
		}
	}
	return
}

func refOf(v Val) string {
	switch x := v.(type) {
	case PtrV:
		return x.ref
	case SliceV:
		return x.ref
	case MapV:
		return x.ref
	case IntV:
		return x.t
	case IfaceV:
		return x.box
	}
	specErr("value has no object reference")
	return ""
}

// ---------- events (ghost protocol state) ----------
func (vc *VC) fireEvent(act *Act, st *State, kind, key string, common *ssa.CallCommon, args []Val, site ssa.Instruction) {
	for _, ev := range vc.eng.eventsFor(kind, key) {
		vc.applyEvent(act, st, st.clone(), ev, args, nil, nil, nil, site)
	}
}

func (vc *VC) fireMapEvent(act *Act, st *State, kind string, m ssa.Value, site ssa.Instruction) {
	key := vc.mapWhat(m)
	for _, ev := range vc.eng.eventsFor(kind, key) {
		vc.applyEvent(act, st, st.clone(), ev, nil, nil, nil, nil, site)
	}
}

func (vc *VC) applyEvent(act *Act, st *State, pre *State, ev *Event, args []Val, argTypes []types.Type, res Val, resT types.Type, site ssa.Instruction) {
	ev.Used = true
	env := &SpecEnv{vc: vc, st: st, old: pre, vars: map[string]TV{}, pkg: vc.eng.pkgByPath(ev.PkgPath), allocBase: pre.top, kind: "event", act: act}
	for k := range args {
		var t types.Type
		if k < len(argTypes) {
			t = argTypes[k]
		}
		env.vars[fmt.Sprintf("arg%d", k)] = TV{args[k], t}
	}
	if res != nil {
		bindResults(env, res, resT, nil)
	}
	pe := *env
	pe.st = pre
	for n, r := range ev.Requires {
		f := pe.evalBoolExpr(r.Expr)
		k := vc.counts["ev#"+ev.Key]
		vc.counts["ev#"+ev.Key]++
		vc.oblige(st, &Obligation{Name: fmt.Sprintf("%s#event#%s %s#%s#%d", vc.eng.shortName(act.fn), ev.Kind, ev.Key, clauseName(r, n), k), Kind: "event-precondition", Clause: r.Text, Src: vc.srcPos(site.Pos()), Tags: eventTags(r, vc)}, f)
	}
	// updates are simultaneous: evaluate all right-hand sides first
	vals := make([]string, len(ev.Do))
	for k, d := range ev.Do {
		func() {
			defer func() {
				if r := recover(); r != nil {
					if _, ok := r.(specError); ok && res == nil {
						vals[k] = "" // refers to a result that does not exist on this edge
						return
					}
					panic(r)
				}
			}()
			tv := env.evalTV(d.Expr)
			vals[k] = flatten(tv.v)[0]
		}()
	}
	for k, d := range ev.Do {
		if vals[k] != "" {
			st.ghost[d.Name] = vc.def("gh_"+d.Name, "Int", vals[k])
		}
	}
	if ev.Interference {
		// acquiring a lock / blocking: everything other goroutines can reach may have changed
		vc.havocAll(st, "interference at "+ev.Kind+" "+ev.Key)
	}
}

// ---------- sites (K4) ----------
func (vc *VC) siteCheck(act *Act, st *State, shape string, site ssa.Instruction, common *ssa.CallCommon, args []Val, argTypes []types.Type, recv Val, recvT types.Type) {
	sites := vc.eng.sitesFor(shape, act.fn, vc.root)
	if len(sites) == 0 {
		return
	}
	for _, s := range sites {
		vc.siteHits[s]++
		env := vc.specEnv(act, st, act.entry, "site", nil)
		env.before = site
		for k := range args {
			var t types.Type
			if k < len(argTypes) {
				t = argTypes[k]
			}
			env.vars[fmt.Sprintf("arg%d", k)] = TV{args[k], t}
		}
		if recv != nil {
			env.vars["recv"] = TV{recv, recvT}
		}
		for _, l := range s.Lets {
			env.vars[l.Name] = env.evalTV(l.Expr)
		}
		if len(s.Asserts) > 0 {
			// vacuity guard: the matched instruction must be reachable under the assumptions made so far
			ck := fmt.Sprintf("site#%s#%s#reachable", s.Name, vc.eng.shortName(act.fn))
			cn := vc.counts[ck]
			vc.counts[ck]++
			vc.oblige(st, &Obligation{Name: fmt.Sprintf("%s#%d", ck, cn), Kind: "cover", Cover: true, Clause: "matched instruction is reachable", Src: vc.srcPos(site.Pos()), Tags: s.Tags, Func: vc.eng.shortName(vc.root)}, "true")
		}
		for n, c := range s.Covers {
			// the instruction is reached in some state where the clause holds (unsat = it never is: reported)
			key := fmt.Sprintf("site#%s#%s#cover#%s", s.Name, vc.eng.shortName(act.fn), clauseName(c, n))
			k := vc.counts[key]
			vc.counts[key]++
			tags := c.Tags
			if len(tags) == 0 {
				tags = s.Tags
			}
			vc.oblige(st, &Obligation{Name: fmt.Sprintf("%s#%d", key, k), Kind: "cover", Cover: true, Clause: "reachable with: " + c.Text, Src: vc.srcPos(site.Pos()), Tags: tags, Func: vc.eng.shortName(vc.root)}, vc.evalBool(env, c))
		}
		for n, a := range s.Asserts {
			key := fmt.Sprintf("site#%s#%s#%s", s.Name, vc.eng.shortName(act.fn), clauseName(a, n))
			k := vc.counts[key]
			vc.counts[key]++
			f := vc.evalBool(env, a)
			tags := a.Tags
			if len(tags) == 0 {
				tags = s.Tags
			}
			vc.oblige(st, &Obligation{Name: fmt.Sprintf("%s#%d", key, k), Kind: "site", Clause: a.Text, Src: vc.srcPos(site.Pos()), Tags: tags, Func: vc.eng.shortName(vc.root)}, f)
		}
	}
}

// ---------- intrinsics: library functions with built-in semantics ----------
func (vc *VC) intrinsic(act *Act, st *State, callee *ssa.Function, args []Val, argTypes []types.Type, resT types.Type, site ssa.Instruction) (Val, bool) {
	name := callee.String()
	switch name {
	case "(*sync.RWMutex).RLock", "(*sync.RWMutex).RUnlock", "(*sync.RWMutex).Lock", "(*sync.RWMutex).Unlock", "(*sync.Mutex).Lock", "(*sync.Mutex).Unlock":
		// ghost lock state is handled by declared events; no heap effect visible to the program
		return nil, true
	case "errors.New", "fmt.Errorf":
		r := vc.freshVal(st, "err", resT).(IfaceV)
		vc.assume(st, not(eq(r.tag, "0")))
		return r, true
	case "fmt.Sprintf", "fmt.Sprint":
		// congruence: equal format and equal (boxed) arguments give equal strings
		var leaves []string
		for ai, a := range args {
			switch x := a.(type) {
			case IntV:
				leaves = append(leaves, x.t)
			case SliceV:
				// variadic arguments built at the call site: read the elements off the SSA
				if ci, ok := site.(ssa.CallInstruction); ok && ai < len(ci.Common().Args) {
					if els, ok := vc.varargElems(act, ci.Common().Args[ai]); ok {
						for _, el := range els {
							leaves = append(leaves, flatten(el)...)
						}
						continue
					}
				}
				n, err := parseInt(x.ln)
				if err != nil || n > 4 {
					return IntV{vc.fresh("str", "Int")}, true
				}
				for k := int64(0); k < n; k++ {
					el := vc.load(st, PtrV{x.ref, fmt.Sprintf("(* (+ %s %d) 2)", x.off, k)}, types.NewInterfaceType(nil, nil)).(IfaceV)
					leaves = append(leaves, el.tag, el.box)
				}
			}
		}
		return IntV{vc.def("fmt", "Int", vc.uf(fmt.Sprintf("sprintf%d", len(leaves)), leaves...))}, true
	}
	_ = token.NoPos
	return nil, false
}

// callbackLoop: an external higher-order function that calls its closure argument any number of
// times (sync.Map.Range, ...). It is treated as a loop whose body is the closure: the caller's
// contract names what the loop may modify (`loop "callback <callee>" modifies ...`); that frame is
// havocked, and the closure body is verified once against it from the havocked state.
func (vc *VC) callbackLoop(act *Act, st *State, callee *ssa.Function, ec *FuncContract, args []Val, argTypes []types.Type, resT types.Type, site ssa.Instruction) Val {
	ec.Used = true
	var cv *ClosureV
	for _, a := range args {
		if c, ok := a.(ClosureV); ok {
			cc := c
			cv = &cc
		}
	}
	var lc *LoopContract
	if act.fc != nil {
		for _, l := range act.fc.Loops {
			if l.Key == "callback "+vc.eng.keyOf(callee) || l.Key == "callback "+callee.String() {
				lc = l
				l.Used = true
			}
		}
	}
	if cv == nil || lc == nil || len(lc.Modifies) == 0 || len(cv.fn.Blocks) == 0 {
		return vc.defaultCall(act, st, resT, "callback-loop "+callee.String(), true)
	}
	items, ghosts, everything := vc.resolveModifies(vc.specEnv(act, st, act.entry, "invariant", nil), lc.Modifies)
	if everything {
		return vc.defaultCall(act, st, resT, "callback-loop "+callee.String(), true)
	}
	vc.callFrameCheck(act, st, items, "callback-loop "+callee.String(), site)
	entryTop := st.top
	for n, inv := range lc.Invariants {
		f := vc.evalBool(vc.specEnv(act, st, act.entry, "invariant", nil), inv)
		vc.oblige(st, &Obligation{Name: fmt.Sprintf("%s#callback-loop#inv-entry#%s", vc.eng.shortName(act.fn), clauseName(inv, n)), Kind: "loop-invariant-entry", Clause: inv.Text, Tags: vc.clauseTags(act.fc, inv), Src: vc.srcPos(site.Pos())}, f)
	}
	vc.havocItems(st, items, ghosts)
	for _, inv := range lc.Invariants {
		vc.assume(st, vc.evalBool(vc.specEnv(act, st, act.entry, "invariant", nil), inv))
	}
	// verify the body once from the havocked state against the loop frame
	body := st.clone()
	var cargs []Val
	for _, p := range cv.fn.Params {
		cargs = append(cargs, vc.freshVal(body, "cb_"+sanitize(p.Name()), p.Type()))
	}
	saved := vc.loopFrames
	vc.loopFrames = append(append([]loopFrame{}, saved...), loopFrame{items: items, top: entryTop, name: lc.Key})
	var cresT types.Type
	if r := cv.fn.Signature.Results(); r.Len() == 1 {
		cresT = r.At(0).Type()
	} else if r.Len() > 1 {
		cresT = r
	}
	vc.inline(act, body, cv.fn, cargs, cv.bind, cresT)
	vc.loopFrames = saved
	if !body.dead {
		for n, inv := range lc.Invariants {
			f := vc.evalBool(vc.specEnv(act, body, act.entry, "invariant", nil), inv)
			vc.oblige(body, &Obligation{Name: fmt.Sprintf("%s#callback-loop#inv-preserved#%s", vc.eng.shortName(act.fn), clauseName(inv, n)), Kind: "loop-invariant-preserved", Clause: inv.Text, Tags: vc.clauseTags(act.fc, inv), Src: vc.srcPos(site.Pos())}, f)
		}
	}
	if resT == nil {
		return nil
	}
	return vc.freshVal(st, "ret", resT)
}

// varargElems returns the values stored into a variadic argument array built at the call site.
func (vc *VC) varargElems(act *Act, arg ssa.Value) ([]Val, bool) {
	sl, ok := arg.(*ssa.Slice)
	if !ok || sl.Low != nil || sl.High != nil {
		return nil, false
	}
	al, ok := sl.X.(*ssa.Alloc)
	if !ok || al.Comment != "varargs" || al.Referrers() == nil {
		return nil, false
	}
	arr, ok := al.Type().(*types.Pointer).Elem().Underlying().(*types.Array)
	if !ok || arr.Len() > 8 {
		return nil, false
	}
	out := make([]Val, arr.Len())
	for _, r := range *al.Referrers() {
		ia, ok := r.(*ssa.IndexAddr)
		if !ok {
			continue
		}
		c, ok := ia.Index.(*ssa.Const)
		if !ok || ia.Referrers() == nil {
			return nil, false
		}
		k := c.Int64()
		for _, u := range *ia.Referrers() {
			if stv, ok := u.(*ssa.Store); ok && stv.Addr == ia {
				out[k] = vc.val(act, stv.Val)
			}
		}
	}
	for _, v := range out {
		if v == nil {
			return nil, false
		}
	}
	return out, true
}

// eventTags: an event precondition belongs to the properties it is tagged with; untagged ones
// follow the function under verification.
func eventTags(r *Clause, vc *VC) []string {
	if len(r.Tags) > 0 {
		return r.Tags
	}
	return vc.fcTags()
}

// feasible: can cond hold on the current path? Asked of the first back end with a fixed resource budget over
// the facts generated so far; anything but `unsat` counts as feasible. Used to leave out contract cases that
// cannot apply at a call site, which keeps large VCs free of dead alternatives and of the joins they need.
func (vc *VC) feasible(cond string) bool {
	if cond == "false" {
		return false
	}
	if os.Getenv("GVC_NOPRUNE") != "" {
		return true
	}
	var sb strings.Builder
	sb.WriteString("(set-logic ALL)\n")
	for _, l := range vc.prelude() {
		sb.WriteString(l + "\n")
	}
	for _, d := range vc.decls {
		sb.WriteString(d + "\n")
	}
	for _, f := range vc.implementsFacts() {
		sb.WriteString(f + "\n")
	}
	for k, a := range vc.asserts {
		if strings.Contains(a, "(@ptrwf@") {
			continue // expanded only when the VC is complete; leaving a fact out keeps the answer conservative
		}
		if vc.obAsserts[k] {
			continue // like reachability covers: judged under assumptions only, not under obligations that may fail
		}
		sb.WriteString("(assert " + a + ")\n")
	}
	sb.WriteString("(assert " + cond + ")\n(check-sat)\n")
	f, err := os.CreateTemp("", "gvc-feas-*.smt2")
	if err != nil {
		return true
	}
	f.WriteString(sb.String())
	f.Close()
	defer os.Remove(f.Name())
	// a resource limit, not a time limit: the answer must not depend on how busy the machine is
	r, _, _ := runSolver(solverSpec{"z3-5.1.0-rlimit", func(file string, t int) []string {
		return []string{"z3-new", "smt.auto_config=false", "rlimit=3000000", fmt.Sprintf("-T:%d", t), file}
	}}, f.Name(), 30)
	return r != "unsat"
}
