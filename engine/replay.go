package main

import (
	"encoding/json"
	"fmt"
	"os"
	"os/exec"
	"path/filepath"
	"strings"
)

// ---------- replay of solver counterexamples on the real code ----------
type replayTest struct {
	source string
	dir    string // package directory (relative to repo) in which the test is injected
	file   string // file name of the injected test
	run_   string // -run pattern
	cmd    string
}

// run injects the test through `go test -overlay` (nothing is written to /repo).
// failed==true means the test failed, i.e. the real code violates the obligation.
func (rt *replayTest) run(e *Engine) (out string, failed bool, err error) {
	return runOverlayTest(e.repo, rt.dir, rt.file, rt.source, rt.run_)
}

func runOverlayTest(repo, dir, file, source, pattern string) (string, bool, error) {
	tmp, err := os.MkdirTemp("", "gvc-replay")
	if err != nil {
		return "", false, err
	}
	defer os.RemoveAll(tmp)
	src := filepath.Join(tmp, file)
	if err := os.WriteFile(src, []byte(source), 0o644); err != nil {
		return "", false, err
	}
	ov := map[string]map[string]string{"Replace": {filepath.Join(repo, dir, file): src}}
	data, _ := json.Marshal(ov)
	ovf := filepath.Join(tmp, "ov.json")
	os.WriteFile(ovf, data, 0o644)
	cmd := exec.Command("go", "test", "-overlay", ovf, "-vet=off", "-count=1", "-timeout", "120s", "-run", pattern, ".")
	cmd.Dir = filepath.Join(repo, dir)
	cmd.Env = append(os.Environ(), "GOFLAGS=-mod=mod", "GOPROXY=off", "GOSUMDB=off", "GOTOOLCHAIN=local", "TMPDIR="+tmp)
	b, rerr := cmd.CombinedOutput()
	out := string(b)
	if rerr == nil {
		return out, false, nil
	}
	if strings.Contains(out, "--- FAIL") || strings.Contains(out, "panic:") {
		return out, true, nil
	}
	return out, false, fmt.Errorf("go test could not run: %v", rerr)
}

func buildReplay(e *Engine, o *Obligation) *replayTest {
	for _, b := range replayBuilders {
		if rt := b(e, o); rt != nil {
			rt.cmd = fmt.Sprintf("cd %s && go test -overlay <ov.json> -vet=off -count=1 -timeout 120s -run '%s' .", filepath.Join(e.repo, rt.dir), rt.run_)
			return rt
		}
	}
	return nil
}

var replayBuilders []func(e *Engine, o *Obligation) *replayTest

func replayFromFile(repo, verif string, data []byte) int {
	var rec map[string]interface{}
	if err := json.Unmarshal(data, &rec); err != nil {
		fmt.Fprintln(os.Stderr, err)
		return 3
	}
	src, _ := rec["replay_test"].(string)
	dir, _ := rec["replay_pkg_dir"].(string)
	file, _ := rec["replay_file"].(string)
	if src == "" {
		fmt.Println("this replay file carries no executable test (no-failing-input-found); the solver output above is the evidence")
		return 0
	}
	out, failed, err := runOverlayTest(repo, dir, file, src, "TestGvcReplay")
	fmt.Println(out)
	if err != nil {
		fmt.Fprintln(os.Stderr, err)
		return 3
	}
	if failed {
		return 1
	}
	return 0
}
