package main

// ---------- extras: stand-alone lemmas (solver string theory) and bounded stand-ins (K5) ----------
type extraItem struct {
	Name      string
	Statement string
	OK        bool
	Result    string
	Backend   string
	Ms        int64
	Witness   string
	Bounded   bool
	Bound     string
	Cases     int
}

type extraResult struct {
	items       []*extraItem
	problems    []string
	assumptions []string
	paper       string
}

func runExtras(e *Engine, prop, tier, verif string) *extraResult {
	r := &extraResult{}
	r.paper = paperArguments[prop]
	return r
}

var paperArguments = map[string]string{}
