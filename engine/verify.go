package main

import (
	"fmt"
	"go/types"
	"sort"
	"strings"

	"golang.org/x/tools/go/ssa"
)

type FuncReport struct {
	Func        string   `json:"func"`
	Contract    string   `json:"contract,omitempty"`
	Obligations int      `json:"obligations"`
	Exits       int      `json:"exits"`
	PanicExits  int      `json:"panic_exits"`
	Error       string   `json:"error,omitempty"`
	Unsupported string   `json:"unsupported,omitempty"`
	Assumed     []string `json:"assumed,omitempty"`
	Asserts     int      `json:"vc_assertions"`
}

func (e *Engine) newVC(fn *ssa.Function) *VC {
	return &VC{eng: e, root: fn, used: map[string]bool{}, counts: map[string]int{}, ifaceFacts: map[string]bool{}, siteHits: map[*Site]int{}, declared: map[string]bool{"strbyte": true, "strlen": true, "typ": true}}
}

func (vc *VC) prelude() []string {
	return []string{
		"(declare-const alloc0 Int)", "(assert (>= alloc0 1))",
		"(declare-const MI0 " + memSort + ")", "(declare-const MR0 " + memSort + ")",
		"(declare-fun typ (Int) Int)",
		"(declare-fun strlen (Int) Int)", "(declare-fun strbyte (Int Int) Int)",
		"(assert (= (strlen 0) 0))",
		// pre-existing memory never points to objects allocated later
		"(assert (forall ((r Int) (i Int)) (! (=> (< r alloc0) (and (>= (select (select MR0 r) i) 0) (< (select (select MR0 r) i) alloc0))) :pattern ((select (select MR0 r) i)))))",
	}
}

// verifyFunction generates all obligations for fn as a root (contract, frame, sites, events).
func (e *Engine) verifyFunction(fn *ssa.Function, fc *FuncContract, ifaceNames []string) (vc *VC, rep *FuncReport) {
	// Every root starts from fresh id tables (types, strings, functions, globals): the text of a function's VC,
	// and with it the solvers' behaviour on it, is the same whichever property or command it is generated for.
	e.resetIDs()
	defer func() {
		if vc != nil {
			// everything that reads the id tables is fixed now, while they are this root's
			vc.finalize()
			vc.implFacts = vc.implementsFacts()
			vc.implFactsDone = true
		}
	}()
	vc = e.newVC(fn)
	vc.fc = fc
	e.curRoot, e.curScope = fn, []*ssa.Function{fn}
	rep = &FuncReport{Func: e.shortName(fn)}
	if fc != nil {
		rep.Contract = fmt.Sprintf("%s:%d", shortFile(fc.File), fc.Line)
		for _, t := range fc.Tags {
			if t == "safety" {
				vc.checkSafety = true
			}
		}
	}
	defer func() {
		if r := recover(); r != nil {
			switch x := r.(type) {
			case unsupported:
				rep.Unsupported = x.msg
			case specError:
				rep.Error = "contract does not evaluate: " + x.msg
			default:
				panic(r)
			}
		}
		rep.Obligations = len(vc.obs)
		rep.Asserts = len(vc.asserts)
		for k := range vc.used {
			rep.Assumed = append(rep.Assumed, k)
		}
		sort.Strings(rep.Assumed)
	}()
	st := &State{guard: "true", mi: "MI0", mr: "MR0", top: "alloc0", ghost: map[string]string{}, kept: map[string]bool{}, visited: map[string]string{}}
	for _, g := range e.contracts.Ghosts {
		n := vc.fresh("gh0_"+g, "Int")
		st.ghost[g] = n
	}
	act := vc.newAct(fn, nil)
	act.fc = fc
	for _, p := range fn.Params {
		v := vc.freshVal(st, "arg_"+sanitize(p.Name()), p.Type())
		act.env[p] = v
	}
	for _, fv := range fn.FreeVars {
		v := vc.freshVal(st, "fv_"+sanitize(fv.Name()), fv.Type())
		act.env[fv] = v
		if p, ok := v.(PtrV); ok {
			vc.assume(st, fmt.Sprintf("(> %s 0)", p.ref))
			// a captured variable whose address this closure never hands out is out of reach of
			// the callees of this activation
			private := fv.Referrers() != nil
			if private {
				for _, r := range *fv.Referrers() {
					switch u := r.(type) {
					case *ssa.UnOp, *ssa.DebugRef:
					case *ssa.Store:
						if u.Val == ssa.Value(fv) {
							private = false
						}
					default:
						private = false
					}
				}
			}
			if private {
				st.kept[p.ref] = true
				vc.used["captured variables are changed only by the enclosing function and its closures"] = true
			}
		}
	}
	// distinct captured variables are distinct cells
	for i, a := range fn.FreeVars {
		for _, b := range fn.FreeVars[i+1:] {
			pa, ok1 := act.env[a].(PtrV)
			pb, ok2 := act.env[b].(PtrV)
			if ok1 && ok2 {
				vc.assume(st, fmt.Sprintf("(not (= %s %s))", pa.ref, pb.ref))
			}
		}
	}
	// method receivers of pointer type are non-nil whole objects
	if fn.Signature.Recv() != nil && len(fn.Params) > 0 {
		if p, ok := act.env[fn.Params[0]].(PtrV); ok {
			vc.assume(st, fmt.Sprintf("(> %s 0)", p.ref))
		}
	}
	env := vc.specEnv(act, st, st, "requires", nil)
	// assumed invariants of constant package-level values (e.g. exported errors are non-nil)
	for _, gc := range e.contracts.Globals {
		genv := &SpecEnv{vc: vc, st: st, old: st, vars: map[string]TV{}, pkg: e.pkgByPath(e.contracts.GlobalPkg[gc]), allocBase: "alloc0", kind: "requires"}
		vc.assertGlobal(genv.evalBoolExpr(gc.Expr))
	}
	// ghost initialisation declared by site sweeps that cover this function
	for _, site := range e.contracts.Sites {
		if len(site.Entry) == 0 {
			continue
		}
		name := e.shortName(fn)
		for _, pat := range site.In {
			if globMatch(pat, name) {
				for _, ec := range site.Entry {
					vc.assume(st, vc.evalBool(env, ec))
				}
			}
		}
	}
	if fc != nil {
		// iface contracts use their own parameter names: alias them to the implementation's
		if len(ifaceNames) > 0 {
			for k, n := range ifaceNames {
				if k < len(fn.Params) {
					act.lets[n] = TV{act.env[fn.Params[k]], fn.Params[k].Type()}
					env.vars[n] = act.lets[n]
				}
			}
		}
		for _, mp := range fc.MayPanic {
			act.mayPanic[mp] = true
		}
		for _, r := range fc.Requires {
			vc.assume(st, vc.evalBool(env, r))
		}
		if fc.When != nil {
			vc.assume(st, vc.evalBool(env, fc.When)) // this case of a contract with alternatives
		}
		for _, r := range fc.Assumes {
			vc.assume(st, vc.evalBool(env, r))
			vc.used["assumed invariant in "+fc.Key+": "+r.Text] = true
		}
		for _, l := range fc.Lets {
			tv := env.evalTV(l.Expr)
			act.lets[l.Name] = tv
			env.vars[l.Name] = tv
		}
		if len(fc.Modifies) > 0 {
			items, _, everything := vc.resolveModifies(env, fc.Modifies)
			vc.frame = items
			if everything {
				vc.frame = append(vc.frame, frameItem{kind: "everything", text: "everything"})
			}
			vc.frameOn = true
		}
		// vacuity: the precondition must be satisfiable
		vc.oblige(st, &Obligation{Name: e.shortName(fn) + "#vacuity#precondition", Kind: "cover", Cover: true, Tags: fc.Tags, Clause: "requires is satisfiable"}, "true")
	}
	entry := st.clone()
	vc.runBody(act, st)
	npanic := 0
	for _, ex := range act.exits {
		if ex.panic {
			npanic++
		}
	}
	rep.Exits, rep.PanicExits = len(act.exits)-npanic, npanic
	if fc != nil {
		nret, npan := 0, 0
		for _, ex := range act.exits {
			if ex.st.dead {
				continue
			}
			xenv := vc.specEnv(act, ex.st, entry, "ensures", nil)
			if ex.site != nil && ex.site.Block() != nil && ex.site.Parent() == fn {
				xenv.point, xenv.atEnd = ex.site.Block(), true
			}
			for k, v := range env.vars {
				xenv.vars[k] = v
			}
			clauses := fc.Ensures
			label := fmt.Sprintf("ret%d", nret)
			if ex.panic {
				clauses = fc.EnsPanic
				label = fmt.Sprintf("panic%d", npan)
				npan++
			} else {
				nret++
				sig := fn.Signature
				switch len(ex.ret) {
				case 0:
				case 1:
					bindResults(xenv, ex.ret[0], sig.Results().At(0).Type(), sig)
				default:
					bindResults(xenv, TupleV{ex.ret}, sig.Results(), sig)
				}
			}
			for n, c := range clauses {
				f := vc.evalBool(xenv, c)
				kind := "postcondition"
				if ex.panic {
					kind = "postcondition-on-panic"
				}
				vc.oblige(ex.st, &Obligation{Name: fmt.Sprintf("%s#%s#%s#%s", e.shortName(fn), map[bool]string{false: "ensures", true: "ensures-on-panic"}[ex.panic], clauseName(c, n), label), Kind: kind, Clause: c.Text, Tags: vc.clauseTags(fc, c), Src: ex.desc}, f)
			}
			// vacuity: every exit must be reachable under the assumptions made
			vc.oblige(ex.st, &Obligation{Name: fmt.Sprintf("%s#vacuity#%s", e.shortName(fn), label), Kind: "cover", Cover: true, Tags: fc.Tags, Clause: "exit reachable", Src: ex.desc}, "true")
		}
		for _, lc := range fc.Loops {
			if !lc.Used {
				rep.Error = fmt.Sprintf("loop %q of %s not found (anchor-missing)", lc.Key, fc.Key)
			}
		}
	}
	return vc, rep
}

// implementations of an interface method inside the repository packages
func (e *Engine) implementations(pkgPath, ifaceName, method string) []*ssa.Function {
	pkg := e.pkgByPath(pkgPath)
	if pkg == nil {
		return nil
	}
	obj := pkg.Scope().Lookup(ifaceName)
	if obj == nil {
		return nil
	}
	it, ok := obj.Type().Underlying().(*types.Interface)
	if !ok {
		return nil
	}
	var out []*ssa.Function
	seen := map[*ssa.Function]bool{}
	for _, sp := range e.spkgs {
		for _, m := range sp.Members {
			tn, ok := m.(*ssa.Type)
			if !ok {
				continue
			}
			for _, t := range []types.Type{tn.Type(), types.NewPointer(tn.Type())} {
				if types.IsInterface(t) || !types.Implements(t, it) {
					continue
				}
				sel := e.prog.MethodSets.MethodSet(t).Lookup(pkg, method)
				if sel == nil {
					sel = e.prog.MethodSets.MethodSet(t).Lookup(nil, method)
				}
				if sel == nil {
					continue
				}
				fn := e.prog.MethodValue(sel)
				if fn == nil || fn.Synthetic != "" || seen[fn] || fn.Pkg == nil || !isRepoPkg(fn.Pkg.Pkg.Path()) {
					continue
				}
				if strings.HasSuffix(e.fset.Position(fn.Pos()).Filename, "_test.go") {
					continue
				}
				seen[fn] = true
				out = append(out, fn)
			}
		}
	}
	sort.Slice(out, func(i, j int) bool { return out[i].String() < out[j].String() })
	return out
}

// implementsFacts: ground facts for the uninterpreted `implements` predicate.
func (vc *VC) implementsFacts() []string {
	if vc.implFactsDone {
		return vc.implFacts
	}
	var out []string
	if !vc.declared["implements"] {
		return nil
	}
	var ikeys []string
	for k := range vc.eng.ifaces {
		ikeys = append(ikeys, k)
	}
	sort.Strings(ikeys)
	ids := make([]int, 0, len(vc.eng.typeByID))
	for id := range vc.eng.typeByID {
		ids = append(ids, id)
	}
	sort.Ints(ids)
	for _, ik := range ikeys {
		it := vc.eng.ifaces[ik]
		iface, ok := it.Underlying().(*types.Interface)
		if !ok {
			continue
		}
		iid := vc.eng.tid(it)
		if !vc.ifaceFacts[fmt.Sprint(iid)] {
			continue
		}
		for _, id := range ids {
			t := vc.eng.typeByID[id]
			if types.IsInterface(t) {
				continue
			}
			if _, isSlice := t.(*types.Slice); isSlice {
				// array-object ids share the slice type string; harmless
			}
			if types.Implements(t, iface) {
				out = append(out, fmt.Sprintf("(assert (implements %d %d))", id, iid))
			} else {
				out = append(out, fmt.Sprintf("(assert (not (implements %d %d)))", id, iid))
			}
		}
	}
	return out
}
