package main

import (
	"encoding/json"
	"flag"
	"fmt"
	"os"
	"path/filepath"
	"sort"
	"strings"
	"time"

	"golang.org/x/tools/go/ssa"
)

func env(k, d string) string {
	if v := os.Getenv(k); v != "" {
		return v
	}
	return d
}

func main() {
	if len(os.Args) < 2 {
		fmt.Fprintln(os.Stderr, "usage: gvc check <property> [--tier quick|thorough] | verify <func>... | list | replay <file> | selftest")
		os.Exit(3)
	}
	repo := env("GVC_REPO", "/repo")
	verif := env("GVC_VERIF", "/verif")
	switch os.Args[1] {
	case "check":
		fs := flag.NewFlagSet("check", flag.ExitOnError)
		tier := fs.String("tier", env("VERIF_TIER", "quick"), "quick|thorough")
		verbose := fs.Bool("v", false, "verbose")
		if len(os.Args) < 3 {
			os.Exit(3)
		}
		fs.Parse(os.Args[3:])
		os.Exit(runCheck(repo, verif, os.Args[2], *tier, *verbose))
	case "verify":
		os.Exit(runVerify(repo, verif, os.Args[2:]))
	case "list":
		os.Exit(runList(repo, verif))
	case "replay":
		os.Exit(runReplay(repo, verif, os.Args[2]))
	case "shapes":
		e, err := newEngine(repo, verif, nil)
		if err != nil {
			fmt.Fprintln(os.Stderr, err)
			os.Exit(3)
		}
		for _, fn := range e.allFuncs {
			if len(os.Args) > 2 && !strings.Contains(e.shortName(fn), os.Args[2]) {
				continue
			}
			seen := map[string]int{}
			for _, b := range fn.Blocks {
				for _, ins := range b.Instrs {
					for _, sh := range e.instrShape(ins) {
						seen[sh]++
					}
				}
			}
			fmt.Println("==", e.shortName(fn))
			var ks []string
			for k := range seen {
				ks = append(ks, k)
			}
			sort.Strings(ks)
			for _, k := range ks {
				fmt.Printf("   %3d  %s\n", seen[k], k)
			}
		}
		os.Exit(0)
	case "selftest":
		os.Exit(runSelftest(repo, verif, os.Args[2:]))
	default:
		fmt.Fprintln(os.Stderr, "unknown command", os.Args[1])
		os.Exit(3)
	}
}

func hasTag(tags []string, t string) bool {
	for _, x := range tags {
		if x == t {
			return true
		}
	}
	return false
}

func contractHasTag(fc *FuncContract, t string) bool {
	if hasTag(fc.Tags, t) {
		return true
	}
	for _, cl := range [][]*Clause{fc.Requires, fc.Ensures, fc.EnsPanic, fc.Modifies} {
		for _, c := range cl {
			if hasTag(c.Tags, t) {
				return true
			}
		}
	}
	for _, l := range fc.Loops {
		for _, c := range l.Invariants {
			if hasTag(c.Tags, t) {
				return true
			}
		}
	}
	return false
}

type rootJob struct {
	fn     *ssa.Function
	fc     *FuncContract
	names  []string
	reason string
}

// rootsFor collects the functions whose VCs carry obligations of the property.
func (e *Engine) rootsFor(prop string) (jobs []rootJob, problems []string) {
	seen := map[string]bool{}
	addJob := func(j rootJob) {
		k := e.shortName(j.fn) + "|"
		if j.fc != nil {
			k += j.fc.Kind + j.fc.Key + j.fc.CaseName
		}
		if seen[k] {
			return
		}
		seen[k] = true
		jobs = append(jobs, j)
	}
	var keys []string
	for k := range e.contracts.Funcs {
		keys = append(keys, k)
	}
	sort.Strings(keys)
	for _, k := range keys {
		fc := e.contracts.Funcs[k]
		if prop != "" && !contractHasTag(fc, prop) {
			continue
		}
		if fc.Trusted != "" {
			continue
		}
		key := strings.SplitN(k, " ", 2)[1]
		fn := e.funcByShort[shortPkg(fc.PkgPath)+"."+key]
		if fn == nil {
			problems = append(problems, fmt.Sprintf("anchor-missing: contract %s:%d names function %s which does not exist", shortFile(fc.File), fc.Line, key))
			continue
		}
		addJob(rootJob{fn: fn, fc: fc, reason: "contract"})
		for _, alt := range fc.Alts {
			if prop == "" || contractHasTag(alt, prop) {
				addJob(rootJob{fn: fn, fc: alt, reason: "contract case " + alt.CaseName})
			}
		}
	}
	keys = keys[:0]
	for k := range e.contracts.Ifaces {
		keys = append(keys, k)
	}
	sort.Strings(keys)
	for _, k := range keys {
		fc := e.contracts.Ifaces[k]
		if prop != "" && !contractHasTag(fc, prop) {
			continue
		}
		if fc.Abstract != "" {
			continue
		}
		parts := strings.SplitN(fc.Key, ".", 2)
		impls := e.implementations(fc.PkgPath, parts[0], parts[1])
		if len(impls) == 0 && prop != "" && isRepoPkg(fc.PkgPath) {
			problems = append(problems, fmt.Sprintf("anchor-missing: interface contract %s has no implementation", fc.Key))
		}
		for _, fn := range impls {
			if reason, skip := fc.SkipImpl[e.keyOf(fn)]; skip {
				e.skipped = append(e.skipped, fmt.Sprintf("%s not verified against %s: %s", e.shortName(fn), fc.Key, reason))
				continue
			}
			addJob(rootJob{fn: fn, fc: fc, names: fc.ParamNames, reason: "implements " + fc.Key})
		}
	}
	// events whose preconditions are tagged with the property are checked at every site of the event
	for _, ev := range e.contracts.Events {
		tagged := false
		for _, r := range ev.Requires {
			if prop == "" || hasTag(r.Tags, prop) {
				tagged = true
			}
		}
		if !tagged || len(ev.Requires) == 0 {
			continue
		}
		n := 0
		for _, fn := range e.allFuncs {
			found := false
			for _, b := range fn.Blocks {
				for _, ins := range b.Instrs {
					for _, sh := range e.instrShape(ins) {
						parts := strings.SplitN(sh, " ", 2)
						if len(parts) != 2 || parts[0] != ev.Kind {
							continue
						}
						k := parts[1]
						if parts[0] == "call" {
							if i := strings.Index(k, "."); i >= 0 && k[i+1:] == ev.Key {
								k = ev.Key
							}
						}
						if k == ev.Key {
							found = true
						}
					}
				}
			}
			if !found {
				continue
			}
			if len(ev.In) > 0 {
				in := false
				for _, p := range ev.In {
					if globMatch(p, e.shortName(fn)) {
						in = true
					}
				}
				if !in {
					continue
				}
			}
			n++
			fc := e.contractFor(fn)
			if fc != nil && fc.Trusted != "" {
				fc = nil
			}
			addJob(rootJob{fn: fn, fc: fc, reason: "event " + ev.Kind + " " + ev.Key})
		}
		_ = n
	}
	for _, s := range e.contracts.Sites {
		tagged := prop == "" || hasTag(s.Tags, prop)
		for _, a := range s.Asserts {
			if hasTag(a.Tags, prop) {
				tagged = true
			}
		}
		for _, a := range s.Covers {
			if hasTag(a.Tags, prop) {
				tagged = true
			}
		}
		if !tagged {
			continue
		}
		fns := e.functionsWithSites(s)
		if n := e.siteInstrCount(s); n < s.MinSites || (len(fns) == 0 && !s.MayBeEmpty) {
			problems = append(problems, fmt.Sprintf("anchor-missing: site %s matched %d instructions in %d functions (minimum %d)", s.Name, n, len(fns), s.MinSites))
		}
		for _, fn := range fns {
			// closures are reached through their parent when it inlines them; verify them as roots too
			fc := e.contractFor(fn)
			if fc != nil && fc.Trusted != "" {
				fc = nil
			}
			addJob(rootJob{fn: fn, fc: fc, reason: "site " + s.Name})
		}
	}
	return
}

func shortPkg(path string) string {
	if path == "gorm.io/gorm" {
		return "gorm"
	}
	return strings.TrimPrefix(path, "gorm.io/gorm/")
}

type runResult struct {
	obs      []*Obligation
	reports  []*FuncReport
	problems []string
	vcs      []*VC
}

func (e *Engine) generate(prop string, only func(*ssa.Function) bool) *runResult {
	res := &runResult{}
	jobs, problems := e.rootsFor(prop)
	res.problems = problems
	for _, j := range jobs {
		if only != nil && !only(j.fn) {
			continue
		}
		vc, rep := e.verifyFunction(j.fn, j.fc, j.names)
		if j.fc != nil && j.fc.CaseName != "" {
			for _, o := range vc.obs {
				o.Name = strings.Replace(o.Name, e.shortName(j.fn), e.shortName(j.fn)+"/"+j.fc.CaseName, 1)
			}
		}
		if j.fc != nil && j.fc.Kind == "iface" {
			rep.Contract += " (" + j.reason + ")"
			for _, o := range vc.obs {
				o.Name = strings.Replace(o.Name, e.shortName(j.fn), e.shortName(j.fn)+"@"+j.fc.Key, 1)
			}
		}
		res.reports = append(res.reports, rep)
		res.vcs = append(res.vcs, vc)
		if rep.Error != "" {
			res.problems = append(res.problems, fmt.Sprintf("%s: %s", rep.Func, rep.Error))
		}
		if rep.Unsupported != "" {
			res.problems = append(res.problems, fmt.Sprintf("%s: outside the verified subset: %s", rep.Func, rep.Unsupported))
		}
		for _, o := range vc.obs {
			if prop == "" || hasTag(o.Tags, prop) {
				res.obs = append(res.obs, o)
			} else if o.assertIdx > 0 {
				// an obligation of another property: this check does not decide it, so it does not lean on it either
				// (a check is self-contained: what it reports does not depend on another check having been run)
				if vc.foreignOb == nil {
					vc.foreignOb = map[int]bool{}
				}
				vc.foreignOb[o.assertIdx-1] = true
			}
		}
	}
	// K3 immutability lemmas: every store to the field is in a whitelisted writer
	for _, im := range e.contracts.Immutables {
		if prop != "" && !hasTag(im.Tags, prop) {
			continue
		}
		writers := e.fieldWriters(im.Field)
		o := &Obligation{Name: "immutable#" + im.Field + "#writers", Kind: "field-writers", Func: "all packages", Clause: "stores to " + im.Field + " occur only in: " + strings.Join(im.Writers, " "), Tags: im.Tags, Src: fmt.Sprintf("%s:%d", shortFile(im.File), im.Line), guard: "true"}
		var bad []string
		for _, w := range writers {
			ok := false
			for _, allowed := range im.Writers {
				if globMatch(allowed, w) || globMatch(allowed, w[strings.Index(w, ".")+1:]) {
					ok = true
				}
			}
			if !ok {
				bad = append(bad, w)
			}
		}
		if len(bad) == 0 {
			o.formula = "true"
		} else {
			o.formula = "false"
			o.Clause += "; also written in " + strings.Join(bad, ", ")
		}
		o.Info = map[string]string{"writers_found": strings.Join(writers, " ")}
		res.obs = append(res.obs, o)
	}
	return res
}

// fieldWriters lists the functions containing a store to the struct field "T.f".
func (e *Engine) fieldWriters(field string) []string {
	var out []string
	for _, fn := range e.allFuncs {
		found := false
		for _, b := range fn.Blocks {
			for _, ins := range b.Instrs {
				for _, sh := range e.instrShape(ins) {
					if sh == "store "+field {
						// initialising a field of an object allocated right here (composite literal,
						// new) is construction, not mutation
						if stv, ok := ins.(*ssa.Store); ok {
							if fa, ok := stv.Addr.(*ssa.FieldAddr); ok {
								if _, isAlloc := fa.X.(*ssa.Alloc); isAlloc {
									continue
								}
							}
						}
						found = true
					}
				}
			}
		}
		if found {
			out = append(out, e.shortName(fn))
		}
	}
	return out
}

func runVerify(repo, verif string, args []string) int {
	e, err := newEngine(repo, verif, nil)
	if err != nil {
		fmt.Fprintln(os.Stderr, err)
		return 3
	}
	dump := false
	all := false
	var pats []string
	for _, a := range args {
		switch a {
		case "-dump":
			dump = true
		case "-all":
			all = true
		default:
			pats = append(pats, a)
		}
	}
	res := e.generate("", func(fn *ssa.Function) bool {
		if len(pats) == 0 {
			return true
		}
		for _, p := range pats {
			if strings.Contains(e.shortName(fn), p) {
				return true
			}
		}
		return false
	})
	tmp, _ := os.MkdirTemp("", "gvc")
	defer os.RemoveAll(tmp)
	discharge(res.obs, solveOpts{timeoutS: 20, dir: tmp, jobs: 16})
	for _, r := range res.reports {
		fmt.Printf("== %s: %d obligations, %d exits (+%d panic), %d assertions %s %s\n", r.Func, r.Obligations, r.Exits, r.PanicExits, r.Asserts, r.Error, r.Unsupported)
		if all {
			for _, a := range r.Assumed {
				fmt.Println("     assumed:", a)
			}
		}
	}
	fails := 0
	for _, o := range res.obs {
		ok := o.Result == "unsat" || (o.Cover && strings.HasPrefix(o.Result, "reachable"))
		if !ok {
			fails++
		}
		if !ok || all {
			fmt.Printf("  %-7s %-8s %s [%s %dms] %s | %s\n", map[bool]string{true: "ok", false: "FAIL"}[ok], o.Result, o.Name, o.Backend, o.Ms, o.Src, o.Clause)
		}
		if (!ok || os.Getenv("GVC_DUMPALL") != "") && dump {
			f := filepath.Join("/tmp", "gvc_"+sanitize(o.Name)+".smt2")
			os.WriteFile(f, []byte(o.query(true)), 0o644)
			fmt.Println("      query:", f)
		}
	}
	for _, p := range res.problems {
		fmt.Println("  PROBLEM:", p)
	}
	fmt.Printf("%d obligations, %d not discharged\n", len(res.obs), fails)
	if fails > 0 {
		return 1
	}
	return 0
}

func runList(repo, verif string) int {
	e, err := newEngine(repo, verif, nil)
	if err != nil {
		fmt.Fprintln(os.Stderr, err)
		return 3
	}
	for _, fn := range e.allFuncs {
		c := ""
		if fc := e.contractFor(fn); fc != nil {
			c = "contract " + strings.Join(fc.Tags, ",")
		}
		fmt.Printf("%-70s blocks=%d %s\n", e.shortName(fn), len(fn.Blocks), c)
	}
	return 0
}

// ---------- evidence ----------
type Evidence struct {
	PropertyID  string                 `json:"property_id"`
	Tier        string                 `json:"tier"`
	Seed        int                    `json:"seed"`
	Level       string                 `json:"level"`
	Coverage    map[string]interface{} `json:"coverage"`
	Assumptions []string               `json:"assumptions"`
	WallS       float64                `json:"wall_s"`
	Violations  int                    `json:"violations"`
}

func writeJSON(path string, v interface{}) {
	os.MkdirAll(filepath.Dir(path), 0o755)
	data, _ := json.MarshalIndent(v, "", " ")
	os.WriteFile(path, append(data, '\n'), 0o644)
}

var _ = time.Now
