package main

func runSelftest(repo, verif string, args []string) int { return 0 }
