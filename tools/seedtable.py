#!/usr/bin/env python3
"""Prints the markdown table of DESIGN.md 10.5 from seeded/*/meta.json and seeded/RESULTS.tsv."""
import json,glob,os,re,collections
res=collections.defaultdict(list)
for l in open('/verif/seeded/RESULTS.tsv'):
    f=l.rstrip('\n').split('\t')
    if len(f)>=3: res[f[0]].append((f[1],f[2],f[3] if len(f)>3 else ''))
    elif len(f)==2: res[f[0]].append(('-',f[1],''))
print('| change | what it does (one line) | reported by | failing obligation |')
print('|---|---|---|---|')
for d in sorted(glob.glob('/verif/seeded/C*-*/')):
    sid=os.path.basename(d.rstrip('/'))
    m=json.load(open(d+'meta.json'))
    summ=re.sub(r'\s+',' ',m['summary']).split('. ')[0][:170].replace('|','/')
    rs=res.get(sid,[])
    hit=[r for r in rs if r[1]=='VIOLATION']
    if hit:
        ob=hit[0][2].strip()
        ob=re.sub(r'^obligation ','',ob).split(' [')[0][:120]
        by=', '.join(sorted(set(r[0] for r in hit)))
    else:
        by='**not reported**'; ob=rs[0][1] if rs else 'not run'
    print(f'| {sid} | {summ} | {by} | `{ob}` |')
