#!/bin/bash
# usage: trymut.sh <patch.diff> <prop>...   applies the patch to /repo, runs the checks, always reverts.
# Evidence and replay files are written to a scratch copy of /verif's output directories, never to /verif itself
# (evidence committed from /verif must come from the unchanged tree).
patch=$1; shift
cd /repo || exit 3
if [ -n "$(git status --porcelain)" ]; then echo "repo dirty"; exit 3; fi
git apply "$patch" || { echo "patch does not apply"; exit 3; }
scratch=$(mktemp -d /tmp/trymut.XXXXXX)
mkdir -p $scratch/verif
for f in contracts harness known_findings.txt properties.jsonl; do ln -s /verif/$f $scratch/verif/$f; done
for p in "$@"; do GVC_VERIF=$scratch/verif /verif/bin/gvc check $p 2>&1 | grep -v "^  obligation" | sed "s#$scratch##" | tail -6; echo "[$p exit=${PIPESTATUS[0]}]"; done
rm -rf $scratch
git checkout -- . ; git status --porcelain | head -3
