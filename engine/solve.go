package main

import (
	"runtime"
	"bytes"
	"context"
	"fmt"
	"os"
	"os/exec"
	"path/filepath"
	"regexp"
	"sort"
	"strings"
	"sync"
	"time"
)

type solverSpec struct {
	name string
	cmd  func(file string, timeoutS int) []string
}

// Budgets are given in "seconds on an idle core" and turned into the solvers' deterministic resource limits
// (z3 rlimit: about 1.3 million units per second on these queries), with a generous wall-clock backstop. The
// verdict on an obligation therefore does not depend on how busy the machine is: a check that passes passes
// again under load, it only takes longer.
const z3UnitsPerSecond = 1300000

var solvers = []solverSpec{
	// z3 5.1 without its automatic per-logic configuration: on these VCs (arrays of arrays, triggered quantifiers,
	// linear and a little nonlinear integer arithmetic) the general configuration decides in a second what the
	// automatic one needs minutes for; the automatic one stays in the race.
	{"z3-5.1.0", func(f string, t int) []string {
		return []string{"z3-new", "smt.auto_config=false", fmt.Sprintf("rlimit=%d", t*z3UnitsPerSecond), fmt.Sprintf("-T:%d", t*8+60), f}
	}},
	{"z3-5.1.0-auto", func(f string, t int) []string {
		return []string{"z3-new", fmt.Sprintf("rlimit=%d", t*z3UnitsPerSecond), fmt.Sprintf("-T:%d", t*8+60), f}
	}},
	{"z3-4.8.12", func(f string, t int) []string {
		return []string{"/usr/bin/z3", fmt.Sprintf("rlimit=%d", t*z3UnitsPerSecond), fmt.Sprintf("-T:%d", t*8+60), f}
	}},
	{"cvc5-1.0", func(f string, t int) []string {
		return []string{"cvc5", "--lang=smt2", fmt.Sprintf("--rlimit=%d", t*100000), fmt.Sprintf("--tlimit=%d", (t*8+60)*1000), f}
	}},
}

var identRe = regexp.MustCompile(`[A-Za-z_][A-Za-z0-9_]*`)

// sliceAsserts selects the assertions in the cone of influence of the obligation: definitions of
// the symbols it mentions (transitively) and assumptions about those symbols. Dropping assertions
// can only lose proofs, never create them, so a sliced `unsat` is a valid discharge.
func (o *Obligation) sliceAsserts(defsOnly bool) map[int]bool { return o.sliceFrom(defsOnly, 0) }

// sliceFrom: like sliceAsserts, but assumptions made before assertion index `from` are dropped
// (definitions are kept): the loop-local slice of an invariant-preservation obligation.
func (o *Obligation) sliceFrom(defsOnly bool, from int) map[int]bool {
	vc := o.vc
	rel := map[string]bool{}
	for _, id := range identRe.FindAllString(o.guard+" "+o.formula, -1) {
		if vc.symDeclared[id] {
			rel[id] = true
		}
	}
	keep := map[int]bool{}
	for pass := 0; pass < 4; pass++ {
		changed := false
		for i := o.pos - 1; i >= 0; i-- {
			if keep[i] {
				continue
			}
			hit := false
			for _, sy := range vc.assertSyms[i] {
				if rel[sy] {
					hit = true
					break
				}
			}
			if !hit {
				continue
			}
			// a definition (= name term) is needed only when the defined name is relevant
			a := vc.asserts[i]
			isDef := false
			if strings.HasPrefix(a, "(= ") {
				name := a[3:]
				if j := strings.IndexByte(name, ' '); j > 0 {
					name = name[:j]
				}
				if vc.symDeclared[name] {
					isDef = true
					if !rel[name] {
						continue
					}
				}
			}
			if defsOnly && !isDef && !strings.Contains(a, "gh") {
				// ground slice: besides definitions and ghost facts, keep the facts that speak only about
				// symbols already in the cone (well-formedness of loaded values, run-time checks that
				// passed, preserved cells; quantified ones too: what a call or a loop left unchanged
				// between two memory versions of the cone, immutable fields)
				all := true
				for _, sy := range vc.assertSyms[i] {
					if !rel[sy] {
						all = false
						break
					}
				}
				if !all {
					continue
				}
			}
			if !isDef && i < from {
				// loop-local slice: of the facts assumed before the loop was cut only the quantifier-free ones
				// about symbols already in the cone are kept (well-formedness of values loaded before the loop)
				if strings.Contains(a, "(forall ") || strings.Contains(a, "(exists ") {
					continue
				}
				all := true
				for _, sy := range vc.assertSyms[i] {
					if !rel[sy] {
						all = false
						break
					}
				}
				if !all {
					continue
				}
			}
			keep[i] = true
			changed = true
			for _, sy := range vc.assertSyms[i] {
				rel[sy] = true
			}
		}
		if !changed {
			break
		}
	}
	return keep
}

// indexSymbols prepares the symbol index used by slicing (called serially before discharge).
func (vc *VC) indexSymbols() {
	if vc.symDeclared != nil {
		return
	}
	{
		vc.symDeclared = map[string]bool{}
		for _, d := range vc.decls {
			if strings.HasPrefix(d, "(declare-const ") {
				f := strings.Fields(d)
				vc.symDeclared[f[1]] = true
			}
		}
		for _, stop := range []string{"alloc0", "MI0", "MR0"} {
			delete(vc.symDeclared, stop)
		}
		vc.assertSyms = make([][]string, len(vc.asserts))
		for i, a := range vc.asserts {
			seen := map[string]bool{}
			for _, id := range identRe.FindAllString(a, -1) {
				if vc.symDeclared[id] && !seen[id] {
					seen[id] = true
					vc.assertSyms[i] = append(vc.assertSyms[i], id)
				}
			}
		}
	}
}

func (o *Obligation) query(withModel bool) string { return o.queryWith(withModel, nil) }

func (o *Obligation) queryWith(withModel bool, keep map[int]bool) string {
	vc := o.vc
	vc.finalize()
	var sb strings.Builder
	if withModel {
		sb.WriteString("(set-option :produce-models true)\n")
	}
	sb.WriteString("(set-logic ALL)\n")
	for _, l := range vc.prelude() {
		sb.WriteString(l + "\n")
	}
	for _, d := range vc.decls {
		sb.WriteString(d + "\n")
	}
	for _, f := range vc.implementsFacts() {
		sb.WriteString(f + "\n")
	}
	for k, a := range vc.asserts[:o.pos] {
		if keep != nil && !keep[k] {
			continue
		}
		if k >= o.skipFrom && k < o.skipTo {
			continue
		}
		if o.Cover && vc.obAsserts[k] {
			continue // reachability is judged under assumptions only, not under obligations that may fail
		}
		if vc.foreignOb[k] {
			continue
		}
		sb.WriteString("(assert " + a + ")\n")
	}
	if o.Cover {
		sb.WriteString("(assert " + o.guard + ")\n")
		if o.formula != "" && o.formula != "true" {
			sb.WriteString("(assert " + o.formula + ")\n")
		}
	} else {
		sb.WriteString("(assert " + o.guard + ")\n")
		sb.WriteString("(assert (not " + o.formula + "))\n")
	}
	sb.WriteString("(check-sat)\n")
	if withModel {
		if len(o.Info) > 0 {
			var ts []string
			for _, k := range sortedKeys(o.Info) {
				if k != "replay" {
					ts = append(ts, o.Info[k])
				}
			}
			if len(ts) > 0 {
				sb.WriteString("(get-value (" + strings.Join(ts, " ") + "))\n")
			}
		}
		sb.WriteString("(get-model)\n")
	}
	return sb.String()
}

func runSolver(s solverSpec, file string, timeoutS int) (string, string, int64) {
	return runSolverCtx(context.Background(), s, file, timeoutS)
}

// raceSolvers runs every back end on the same query at once and returns the first definitive
// answer (sat/unsat); the others are killed. Without one, all answers are reported.
func raceSolvers(file string, timeoutS int) (winner solverSpec, result, text string, all []string, ms int64) {
	ctx, cancel := context.WithCancel(context.Background())
	defer cancel()
	type ans struct {
		s    solverSpec
		r, t string
		ms   int64
	}
	ch := make(chan ans, len(solvers))
	for _, s := range solvers {
		go func(s solverSpec) {
			r, t, m := runSolverCtx(ctx, s, file, timeoutS)
			ch <- ans{s, r, t, m}
		}(s)
	}
	for range solvers {
		a := <-ch
		if a.ms > ms {
			ms = a.ms
		}
		if a.r == "sat" || a.r == "unsat" {
			return a.s, a.r, a.t, nil, a.ms
		}
		all = append(all, a.s.name+":"+a.r)
	}
	sort.Strings(all)
	return solverSpec{}, "", "", all, ms
}

// solverSlots: at most one solver process per core at any time, however many obligations, races and lemma
// attempts are in flight; a solver's time budget then measures its own work, not its share of a crowded machine.
var solverSlots = make(chan struct{}, runtime.NumCPU())

func runSolverCtx(parent context.Context, s solverSpec, file string, timeoutS int) (string, string, int64) {
	select {
	case solverSlots <- struct{}{}:
	case <-parent.Done():
		return "cancelled", "", 0
	}
	defer func() { <-solverSlots }()
	t0 := time.Now()
	ctx, cancel := context.WithTimeout(parent, time.Duration(timeoutS*8+90)*time.Second)
	defer cancel()
	args := s.cmd(file, timeoutS)
	cmd := exec.CommandContext(ctx, args[0], args[1:]...)
	var out bytes.Buffer
	cmd.Stdout = &out
	cmd.Stderr = &out
	cmd.Run()
	ms := time.Since(t0).Milliseconds()
	text := out.String()
	first := strings.TrimSpace(strings.SplitN(text, "\n", 2)[0])
	switch first {
	case "sat", "unsat", "unknown":
	default:
		if strings.Contains(text, "timeout") || ctx.Err() != nil {
			first = "timeout"
		} else {
			first = "error: " + strings.TrimSpace(truncate(text, 300))
		}
	}
	return first, text, ms
}

func truncate(s string, n int) string {
	if len(s) > n {
		return s[:n] + "..."
	}
	return s
}

type solveOpts struct {
	timeoutS int
	dir      string
	thorough bool
	jobs     int
}

// discharge decides every obligation: unsat = discharged; sat = refuted (model kept);
// unknown/timeout = not discharged. Covers are inverted: unsat = vacuous.
func discharge(obs []*Obligation, opt solveOpts) {
	os.MkdirAll(opt.dir, 0o755)
	for _, o := range obs {
		if o.vc != nil {
			o.vc.finalize()
			o.vc.indexSymbols()
		}
	}
	var wg sync.WaitGroup
	sem := make(chan struct{}, opt.jobs)
	for k, o := range obs {
		wg.Add(1)
		sem <- struct{}{}
		go func(k int, o *Obligation) {
			defer wg.Done()
			defer func() { <-sem }()
			if os.Getenv("GVC_TIMING") != "" {
				t0 := time.Now()
				defer func() {
					if d := time.Since(t0); d > 3*time.Second {
						fmt.Fprintf(os.Stderr, "  wall %5.1fs (solver %5.1fs) %s\n", d.Seconds(), float64(o.Ms)/1000, o.Name)
					}
				}()
			}
			file := filepath.Join(opt.dir, fmt.Sprintf("q%05d.smt2", k))
			if o.formula == "true" && !o.Cover {
				o.Result, o.Backend = "unsat", "trivial"
				return
			}
			if o.vc == nil {
				o.Result, o.Backend = "failed", "structural"
				return
			}
			if o.formula == "false" && !o.Cover {
				// structural failure (e.g. a callee without frame): no solver needed
				o.Result, o.Backend = "failed", "structural"
				return
			}
			var results []string
			scalarTried := false
			coiTried := false
			sliceStart := 0
			trySlice := func(defsOnly bool, to int) bool {
				keep := o.sliceFrom(defsOnly, sliceStart)
				if len(keep) >= o.pos {
					return false
				}
				sfile := file + ".slice.smt2"
				os.WriteFile(sfile, []byte(o.queryWith(false, keep)), 0o644)
				r, _, ms := runSolver(solvers[0], sfile, to)
				if d := os.Getenv("GVC_DUMPSLICE"); d != "" && r != "unsat" {
					os.WriteFile(filepath.Join(d, fmt.Sprintf("slice_%s_from%d_%v.smt2", sanitize(o.Name), sliceStart, defsOnly)), []byte(o.queryWith(false, keep)), 0o644)
				}
				os.Remove(sfile)
				o.Ms += ms
				if r == "unsat" {
					o.Result, o.Backend = "unsat", fmt.Sprintf("%s (slice: %d of %d assertions)", solvers[0].name, len(keep), o.pos)
					return true
				}
				results = append(results, "slice:"+r)
				return false
			}
			if !o.Cover && o.vc.nonlinear && o.pos > 800 {
				// arithmetic at heart (the code multiplies or divides by variables): see scalarSlice
				os.WriteFile(file, []byte(o.query(false)), 0o644)
				r, _, ms := runSolver(solvers[0], file, 3)
				o.Ms += ms
				if r == "unsat" {
					o.Result, o.Backend = "unsat", solvers[0].name
					os.Remove(file)
					return
				}
				if r != "sat" {
					scalarTried = true
					if o.scalarSlice(file, opt, &results) {
						os.Remove(file)
						return
					}
				}
			}
			if !o.Cover && o.localFrom > 0 && o.pos > 800 {
				// invariant preservation in a large function: the loop-local slice first
				sliceStart = o.localFrom
				ok := trySlice(false, 15)
				sliceStart = 0
				if ok {
					return
				}
			}
			if !o.Cover && (strings.Contains(o.formula, "gh") || o.Kind == "site") && o.pos > 1500 {
				// ghost-level obligation in a large VC: definitions and ghost facts usually suffice
				if trySlice(true, 5) {
					return
				}
			}
			os.WriteFile(file, []byte(o.query(false)), 0o644)
			defer os.Remove(file)
			if !o.Cover {
				// stage 1: the first back end with a short budget decides most obligations in milliseconds;
				// stage 2: all back ends race on what is left (each is unstable on some queries the others
				// decide at once, and running them one after the other would triple the waiting time)
				short := 3
				if opt.timeoutS < short {
					short = opt.timeoutS
				}
				r, text, ms := runSolver(solvers[0], file, short)
				o.Ms += ms
				win := solvers[0]
				if r != "unsat" && r != "sat" && o.pos > 600 && !coiTried {
					// the cone of influence of the goal is usually a small part of a large VC and is decided
					// far more reliably than the whole
					coiTried = true
					if trySlice(false, 6) {
						return
					}
				}
				if r != "unsat" && r != "sat" && o.vc.nonlinear && !scalarTried {
					// arithmetic at heart: the scalar slice first (see scalarSlice)
					if o.scalarSlice(file, opt, &results) {
						return
					}
					scalarTried = true
				}
				if r != "unsat" && r != "sat" {
					var all []string
					var ms2 int64
					win, r, text, all, ms2 = raceSolvers(file, opt.timeoutS)
					o.Ms += ms2
					results = append(results, all...)
				}
				_ = text
				if r == "unsat" {
					o.Result, o.Backend = "unsat", win.name
					if opt.thorough {
						// cross-check with another back end
						other := solvers[2] // an independent implementation
						if win.name == other.name {
							other = solvers[0]
						}
						r2, _, ms3 := runSolver(other, file, opt.timeoutS)
						o.Ms += ms3
						if r2 == "sat" {
							o.Result, o.Backend = "sat", "disagreement:"+win.name+"=unsat,"+other.name+"=sat"
						} else {
							o.Backend += "+" + other.name + ":" + r2
						}
					}
					return
				}
				if r == "sat" {
					o.Result, o.Backend = "sat", win.name
					// fetch a model
					mfile := file + ".m.smt2"
					os.WriteFile(mfile, []byte(o.query(true)), 0o644)
					_, mtext, _ := runSolver(win, mfile, opt.timeoutS)
					os.Remove(mfile)
					o.Model = mtext
					return
				}
			}
			for si, s := range solvers {
				if !o.Cover {
					break
				}
				r, _, ms := runSolver(s, file, 4)
				o.Ms += ms
				results = append(results, s.name+":"+r)
				// a cover only needs one solver to fail to refute it
				if r != "unsat" {
					o.Result, o.Backend = "reachable("+r+")", s.name
					return
				}
				if si == 0 {
					continue // confirm vacuity with a second solver
				}
				o.Result, o.Backend = "vacuous", strings.Join(results, ",")
				return
			}
			if !o.Cover && !coiTried && trySlice(false, 10) {
				return
			}
			if !o.Cover && !scalarTried && o.scalarSlice(file, opt, &results) {
				return
			}
			o.Result, o.Backend = "unknown", strings.Join(results, ",")
		}(k, o)
	}
	wg.Wait()
}

// modelValue extracts the value of a constant from a z3 model text.
func modelValue(model, name string) (string, bool) {
	key := "(define-fun " + name + " ()"
	i := strings.Index(model, key)
	if i < 0 {
		return "", false
	}
	rest := model[i+len(key):]
	// skip sort
	j := strings.Index(rest, "\n")
	if j < 0 {
		return "", false
	}
	line := strings.TrimSpace(rest[j+1:])
	if k := strings.Index(line, "\n"); k >= 0 {
		line = line[:k]
	}
	line = strings.TrimSuffix(strings.TrimSpace(line), ")")
	line = strings.TrimSpace(line)
	if strings.HasPrefix(line, "(- ") {
		line = "-" + strings.TrimSuffix(strings.TrimPrefix(line, "(- "), ")")
	}
	return line, true
}

func sortedKeys(m map[string]string) []string {
	var ks []string
	for k := range m {
		ks = append(ks, k)
	}
	sort.Strings(ks)
	return ks
}

// infoValues parses the (get-value ...) answer that precedes the model.
func (o *Obligation) infoValues() map[string]int64 {
	out := map[string]int64{}
	text := o.Model
	i := strings.Index(text, "((")
	if i < 0 {
		return out
	}
	for _, k := range sortedKeys(o.Info) {
		if k == "replay" {
			continue
		}
		term := o.Info[k]
		key := "(" + term + " "
		j := strings.Index(text, key)
		if j < 0 {
			continue
		}
		rest := text[j+len(key):]
		rest = strings.TrimSpace(rest)
		var v int64
		if strings.HasPrefix(rest, "(- ") {
			fmt.Sscanf(rest[3:], "%d", &v)
			v = -v
		} else {
			fmt.Sscanf(rest, "%d", &v)
		}
		out[k] = v
	}
	return out
}

var nonlinearRe = regexp.MustCompile(`\((div|mod) |\(\* [a-z_(][^ ]* [a-z_(]`)
var memSymRe = regexp.MustCompile(`^(MI|MR|row|zrow|top|vis)_?[0-9]`)
var loadDefRe = regexp.MustCompile(`^\(= (ld_[0-9]+) \(select \(select (M[IR]_?[0-9]+) (.+)\)\)$`)

// scalarSlice: the last resort for goals that are arithmetic at heart but sit in a large memory context
// (where the nonlinear and the array reasoning of the solvers get in each other's way).
//  1. The cone of the goal is computed over scalar symbols only: memory versions are opaque, so the values
//     loaded from memory stay in the cone but the stores and frames that relate them do not.
//  2. Two loads of the same cell in different memory versions are candidates for equality; each candidate is
//     proved on its own against the FULL query (a pure memory question, decided quickly) and only then used.
//  3. The scalar cone plus the proved equalities is decided.
// Dropping assertions weakens the hypotheses and every added equality is a consequence of the full set under the
// same guard, so `unsat` here is a valid discharge of the original obligation.
func (o *Obligation) scalarSlice(file string, opt solveOpts, results *[]string) bool {
	vc := o.vc
	rel := map[string]bool{}
	for _, id := range identRe.FindAllString(o.guard+" "+o.formula, -1) {
		if vc.symDeclared[id] && !memSymRe.MatchString(id) {
			rel[id] = true
		}
	}
	keep := map[int]bool{}
	for pass := 0; pass < 6; pass++ {
		changed := false
		for i := o.pos - 1; i >= 0; i-- {
			if keep[i] {
				continue
			}
			a := vc.asserts[i]
			if strings.Contains(a, "(forall ") || strings.Contains(a, "(exists ") {
				continue
			}
			hit := false
			for _, sy := range vc.assertSyms[i] {
				if rel[sy] {
					hit = true
					break
				}
			}
			if !hit {
				continue
			}
			mem := false
			for _, sy := range vc.assertSyms[i] {
				if memSymRe.MatchString(sy) {
					mem = true
				}
			}
			if m := loadDefRe.FindStringSubmatch(a); m != nil {
				if !rel[m[1]] {
					continue
				}
				keep[i] = true // the load stays (its memory is opaque); its address symbols join the cone
				for _, sy := range vc.assertSyms[i] {
					if !memSymRe.MatchString(sy) && !rel[sy] {
						rel[sy] = true
						changed = true
					}
				}
				continue
			}
			if mem {
				continue
			}
			if strings.HasPrefix(a, "(= ") {
				name := a[3:]
				if j := strings.IndexByte(name, ' '); j > 0 {
					name = name[:j]
				}
				if vc.symDeclared[name] && !rel[name] {
					continue
				}
			}
			keep[i] = true
			changed = true
			for _, sy := range vc.assertSyms[i] {
				rel[sy] = true
			}
		}
		if !changed {
			break
		}
	}
	// the slice is only worth its lemma phase when the goal's cone really multiplies or divides
	arith := false
	for i := 0; i < o.pos && !arith; i++ {
		if keep[i] && nonlinearRe.MatchString(vc.asserts[i]) {
			arith = true
		}
	}
	if !arith && !nonlinearRe.MatchString(o.formula) {
		return false
	}
	// candidate equalities: same cell, different memory version
	type ld struct{ name, mem, addr string }
	groups := map[string][]ld{}
	var order []string
	coneAddr := map[string]bool{}
	for i := 0; i < o.pos; i++ {
		if keep[i] {
			if m := loadDefRe.FindStringSubmatch(vc.asserts[i]); m != nil {
				coneAddr[m[2][:2]+"|"+m[3]] = true
			}
		}
	}
	for i := 0; i < o.pos; i++ {
		if m := loadDefRe.FindStringSubmatch(vc.asserts[i]); m != nil {
			k := m[2][:2] + "|" + m[3]
			if !coneAddr[k] {
				continue
			}
			keep[i] = true // reads of a cell the cone reads: links of the equality chains
			if _, ok := groups[k]; !ok {
				order = append(order, k)
			}
			groups[k] = append(groups[k], ld{m[1], m[2], m[3]})
		}
	}
	var lemmas []string
	full := o.query(false)
	cut := strings.LastIndex(full, "(assert (not ")
	if cut < 0 {
		return false
	}
	// candidates: each read against the previous read of the same cell (chains of equal reads), decided in parallel
	type cand struct{ a, b string }
	var cands []cand
	for _, k := range order {
		g := groups[k]
		for j := 1; j < len(g) && len(cands) < 40; j++ {
			if g[j].mem == g[j-1].mem {
				lemmas = append(lemmas, fmt.Sprintf("(= %s %s)", g[j-1].name, g[j].name))
				continue
			}
			cands = append(cands, cand{g[j-1].name, g[j].name})
			if j >= 2 && g[j].mem != g[0].mem {
				cands = append(cands, cand{g[0].name, g[j].name}) // a second way round a link that does not prove in time
			}
		}
	}
	proved := make([]bool, len(cands))
	var lwg sync.WaitGroup
	lsem := make(chan struct{}, 8)
	var lms int64
	var lmu sync.Mutex
	for ci, c := range cands {
		lwg.Add(1)
		lsem <- struct{}{}
		go func(ci int, c cand) {
			defer lwg.Done()
			defer func() { <-lsem }()
			lf := fmt.Sprintf("%s.lemma%d.smt2", file, ci)
			os.WriteFile(lf, []byte(full[:cut]+fmt.Sprintf("(assert (not (= %s %s)))\n(check-sat)\n", c.a, c.b)), 0o644)
			r, _, ms := runSolver(solvers[0], lf, 4)
			os.Remove(lf)
			lmu.Lock()
			if ms > lms {
				lms = ms
			}
			lmu.Unlock()
			proved[ci] = r == "unsat"
		}(ci, c)
	}
	lwg.Wait()
	o.Ms += lms
	for ci, c := range cands {
		if proved[ci] {
			lemmas = append(lemmas, fmt.Sprintf("(= %s %s)", c.a, c.b))
		}
	}
	sfile := file + ".scalar.smt2"
	q := o.queryWith(false, keep)
	c2 := strings.LastIndex(q, "(assert (not ")
	if c2 < 0 {
		return false
	}
	var sb strings.Builder
	sb.WriteString(q[:c2])
	for _, l := range lemmas {
		sb.WriteString("(assert " + l + ")\n")
	}
	sb.WriteString(q[c2:])
	os.WriteFile(sfile, []byte(sb.String()), 0o644)
	defer os.Remove(sfile)
	if d := os.Getenv("GVC_DUMPSLICE"); d != "" {
		os.WriteFile(filepath.Join(d, "scalar_"+sanitize(o.Name)+".smt2"), []byte(sb.String()), 0o644)
	}
	win, r, _, all, ms := raceSolvers(sfile, opt.timeoutS)
	o.Ms += ms
	if r == "unsat" {
		o.Result, o.Backend = "unsat", fmt.Sprintf("%s (scalar slice: %d of %d assertions + %d proved load equalities)", win.name, len(keep), o.pos, len(lemmas))
		return true
	}
	*results = append(*results, "scalar-slice:"+r+strings.Join(all, ","))
	return false
}
