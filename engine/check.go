package main

import (
	"fmt"
	"os"
	"path/filepath"
	"sort"
	"strconv"
	"strings"
	"time"
)

type knownFinding struct {
	kind     string // known | fixed
	property string
	oblig    string // glob over obligation names
	text     string
	hit      bool
}

func loadKnown(verif string) []*knownFinding {
	data, err := os.ReadFile(filepath.Join(verif, "known_findings.txt"))
	if err != nil {
		return nil
	}
	var out []*knownFinding
	for _, l := range strings.Split(string(data), "\n") {
		l = strings.TrimSpace(l)
		if l == "" || strings.HasPrefix(l, "#") {
			continue
		}
		kf := &knownFinding{text: l}
		switch {
		case strings.HasPrefix(l, "known:"):
			kf.kind = "known"
		case strings.HasPrefix(l, "fixed:"):
			kf.kind = "fixed"
		default:
			continue
		}
		for _, f := range strings.Fields(l) {
			if strings.HasPrefix(f, "property=") {
				kf.property = strings.TrimPrefix(f, "property=")
			}
			if strings.HasPrefix(f, "obligation=") {
				kf.oblig = strings.TrimPrefix(f, "obligation=")
			}
		}
		out = append(out, kf)
	}
	return out
}

func matchKnown(kfs []*knownFinding, prop, name string) *knownFinding {
	for _, k := range kfs {
		if k.kind != "known" || k.property != prop || k.oblig == "" {
			continue
		}
		if k.oblig == name || simpleGlob(k.oblig, name) {
			return k
		}
	}
	return nil
}

// simpleGlob: '*' matches any run of characters (including separators).
func simpleGlob(pat, s string) bool {
	parts := strings.Split(pat, "*")
	if len(parts) == 1 {
		return pat == s
	}
	if !strings.HasPrefix(s, parts[0]) {
		return false
	}
	s = s[len(parts[0]):]
	for i := 1; i < len(parts)-1; i++ {
		j := strings.Index(s, parts[i])
		if j < 0 {
			return false
		}
		s = s[j+len(parts[i]):]
	}
	return strings.HasSuffix(s, parts[len(parts)-1])
}

type propMeta struct {
	Paper       string
	Assumptions []string
}

func runCheck(repo, verif, prop, tier string, verbose bool) int {
	t0 := time.Now()
	seed, _ := strconv.Atoi(env("VERIF_SEED", "0"))
	evPath := filepath.Join(verif, "evidence", prop+".json")
	os.Remove(evPath)
	e, err := newEngine(repo, verif, nil)
	if err != nil {
		fmt.Fprintln(os.Stderr, "gvc: engine error:", err)
		// a tree that does not compile is exit 3, not a verdict
		return 3
	}
	loadS := time.Since(t0).Seconds()
	res := e.generate(prop, nil)
	extra := runExtras(e, prop, tier, verif)
	genS := time.Since(t0).Seconds() - loadS
	tmp, _ := os.MkdirTemp("", "gvc-"+prop)
	defer os.RemoveAll(tmp)
	timeout := 30
	if tier == "thorough" {
		timeout = 90
	}
	tD := time.Now()
	discharge(res.obs, solveOpts{timeoutS: timeout, dir: tmp, jobs: 16, thorough: tier == "thorough"})
	if os.Getenv("GVC_TIMING") != "" {
		fmt.Fprintf(os.Stderr, "gvc timing: load %.1fs generate %.1fs discharge %.1fs\n", loadS, genS, time.Since(tD).Seconds())
		for _, o := range res.obs {
			if o.Ms > 3000 {
				fmt.Fprintf(os.Stderr, "  %6dms %s [%s] %s\n", o.Ms, o.Name, o.Result, o.Backend)
			}
		}
	}
	if d := os.Getenv("GVC_DUMPFAIL"); d != "" {
		for _, o := range res.obs {
			if o.vc != nil && !o.Cover && (o.Result != "unsat" || os.Getenv("GVC_DUMPALL") != "") {
				os.WriteFile(filepath.Join(d, "fail_"+sanitize(o.Name)+".smt2"), []byte(o.query(true)), 0o644)
			}
		}
	}
	known := loadKnown(verif)

	type failure struct {
		o      *Obligation
		reason string
	}
	var fails []failure
	var knownHits []string
	discharged, covers, coversOK, total := 0, 0, 0, 0
	var solverMs int64
	backends := map[string]int{}
	vacuous := false
	var vacuityProblems []string
	for _, o := range res.obs {
		solverMs += o.Ms
		if o.Cover {
			covers++
			if strings.HasPrefix(o.Result, "reachable") {
				coversOK++
			} else {
				vacuous = true
				// the contracts assumed along the way contradict each other on this path: the code no longer fits
				// them (or a contract is wrong). Either way the property is not decided: reported, never a pass.
				if strings.HasPrefix(o.Clause, "reachable with: ") {
					vacuityProblems = append(vacuityProblems, fmt.Sprintf("cover: %s: the instruction at %s is never reached in a state where %s (%s)", o.Name, o.Src, strings.TrimPrefix(o.Clause, "reachable with: "), o.Backend))
				} else {
					vacuityProblems = append(vacuityProblems, fmt.Sprintf("vacuity: %s is unreachable under the assumed contracts (%s)", o.Name, o.Backend))
				}
			}
			continue
		}
		total++
		backends[strings.SplitN(o.Backend, "+", 2)[0]]++
		if o.Result == "unsat" {
			discharged++
			continue
		}
		if k := matchKnown(known, prop, o.Name); k != nil {
			k.hit = true
			knownHits = append(knownHits, fmt.Sprintf("KNOWN-FINDING: property=%s %s", prop, strings.TrimSpace(strings.TrimPrefix(k.text, "known:"))))
			continue
		}
		fails = append(fails, failure{o, o.Result})
	}
	// extras (lemmas, bounded stand-ins)
	for _, x := range extra.items {
		if x.Bounded {
			continue
		}
		total++
		solverMs += x.Ms
		if x.OK {
			discharged++
			backends[x.Backend]++
		} else if k := matchKnown(known, prop, x.Name); k != nil {
			k.hit = true
			knownHits = append(knownHits, fmt.Sprintf("KNOWN-FINDING: property=%s %s", prop, strings.TrimSpace(strings.TrimPrefix(k.text, "known:"))))
		} else {
			fails = append(fails, failure{&Obligation{Name: x.Name, Kind: "lemma", Clause: x.Statement, Result: x.Result, Backend: x.Backend, Model: x.Witness}, x.Result})
		}
	}
	for _, b := range extra.items {
		if b.Bounded && !b.OK {
			if k := matchKnown(known, prop, b.Name); k != nil {
				k.hit = true
				knownHits = append(knownHits, fmt.Sprintf("KNOWN-FINDING: property=%s %s", prop, strings.TrimSpace(strings.TrimPrefix(k.text, "known:"))))
			} else {
				fails = append(fails, failure{&Obligation{Name: b.Name, Kind: "bounded", Clause: b.Statement, Result: b.Result, Model: b.Witness}, b.Result})
			}
		}
	}
	problems := append([]string{}, res.problems...)
	problems = append(problems, extra.problems...)
	problems = append(problems, vacuityProblems...)

	// ---- report ----
	uniq := map[string]bool{}
	for _, h := range knownHits {
		if !uniq[h] {
			uniq[h] = true
			fmt.Println(h)
		}
	}
	exit := 0
	nviol := 0
	replayDir := filepath.Join(verif, "replays", prop)
	os.RemoveAll(replayDir)
	reported := map[string]bool{}
	for _, f := range fails {
		nviol++
		base := f.o.Name
		if reported[base] {
			continue
		}
		reported[base] = true
		rp := writeReplay(e, replayDir, prop, f.o)
		suffix := ""
		if !rp.confirmed {
			suffix = " no-failing-input-found"
		}
		fmt.Printf("VIOLATION property=%s replay=%s%s\n", prop, rp.path, suffix)
		fmt.Printf("  obligation %s [%s] %s: %s  (%s)\n", f.o.Name, f.o.Kind, f.o.Result, f.o.Clause, f.o.Src)
		exit = 1
	}
	for n, p := range problems {
		nviol++
		path := filepath.Join(replayDir, fmt.Sprintf("problem-%d.json", n))
		writeJSON(path, map[string]string{"property": prop, "obligation": "anchor", "reason": p})
		fmt.Printf("VIOLATION property=%s replay=%s no-failing-input-found\n", prop, path)
		fmt.Printf("  %s\n", p)
		exit = 1
	}
	if total == 0 && exit == 0 {
		fmt.Fprintf(os.Stderr, "gvc: no obligations generated for %s: refusing to report success\n", prop)
		return 3
	}
	_ = vacuous

	// ---- evidence ----
	var funcs []string
	assumed := map[string]bool{}
	for _, r := range res.reports {
		funcs = append(funcs, r.Func)
		for _, a := range r.Assumed {
			assumed[a] = true
		}
	}
	sort.Strings(funcs)
	var assumptions []string
	for a := range assumed {
		assumptions = append(assumptions, a)
	}
	sort.Strings(assumptions)
	for _, sk := range e.skipped {
		assumptions = append(assumptions, "NOT VERIFIED (tool limit): "+sk)
	}
	assumptions = append(assumptions, standingAssumptions...)
	assumptions = append(assumptions, extra.assumptions...)
	var trusted []string
	for _, fc := range e.contracts.order {
		if fc.Trusted != "" && fc.Used {
			trusted = append(trusted, "trusted contract "+fc.Key+": "+fc.Trusted)
		}
		if fc.Kind == "extern" && fc.Used {
			trusted = append(trusted, "external contract "+fc.Key)
		}
		if fc.Kind == "iface" && fc.Used && fc.Abstract != "" {
			trusted = append(trusted, "interface contract "+fc.Key+" ASSUMED for all implementations: "+fc.Abstract)
		} else if fc.Kind == "iface" && fc.Used {
			trusted = append(trusted, "interface contract "+fc.Key+" (assumed for implementations outside /repo; every /repo implementation is verified against it)")
		}
	}
	trusted = append(trusted, "go/types + go/ssa (x/tools v0.29.0) front end; gvc SSA->SMT translation; z3 4.8.12 / z3 5.1.0 / cvc5 1.0")
	var samples []interface{}
	for k, o := range res.obs {
		if o.Cover {
			continue
		}
		if len(samples) < 4 || (k%37 == 0 && len(samples) < 8) {
			samples = append(samples, map[string]interface{}{"obligation": o.Name, "kind": o.Kind, "clause": o.Clause, "src": o.Src, "result": o.Result, "backend": o.Backend, "ms": o.Ms, "smt_tail": tailOfQuery(o)})
		}
	}
	for _, x := range extra.items {
		samples = append(samples, map[string]interface{}{"obligation": x.Name, "kind": map[bool]string{true: "bounded", false: "lemma"}[x.Bounded], "clause": x.Statement, "result": x.Result, "backend": x.Backend})
	}
	var obl []map[string]interface{}
	for _, o := range res.obs {
		obl = append(obl, map[string]interface{}{"name": o.Name, "kind": o.Kind, "result": o.Result, "backend": o.Backend, "ms": o.Ms})
	}
	var bounded []map[string]interface{}
	for _, x := range extra.items {
		if x.Bounded {
			bounded = append(bounded, map[string]interface{}{"name": x.Name, "bound": x.Bound, "cases": x.Cases, "ok": x.OK, "statement": x.Statement})
		} else {
			obl = append(obl, map[string]interface{}{"name": x.Name, "kind": "lemma", "result": x.Result, "backend": x.Backend, "ms": x.Ms})
		}
	}
	ev := Evidence{PropertyID: prop, Tier: tier, Seed: seed, Level: "proof", WallS: time.Since(t0).Seconds(), Violations: nviol, Assumptions: assumptions}
	ev.Coverage = map[string]interface{}{
		"obligations":              total,
		"discharged":               discharged,
		"checker_cmd":              fmt.Sprintf("/verif/bin/gvc check %s --tier %s  (VCs generated from go/ssa of /repo's working tree; each obligation is one SMT-LIB query; back ends z3 5.1.0 (smt.auto_config=false), z3 5.1.0, z3 4.8.12, cvc5 1.0, staged then raced; budget per query = deterministic resource limits worth about %d s on an idle core)", prop, tier, timeout),
		"trusted_base":             trusted,
		"functions_under_contract": funcs,
		"function_reports":         res.reports,
		"reachability_covers":      covers,
		"covers_reachable":         coversOK,
		"backends":                 backends,
		"solver_time_s":            float64(solverMs) / 1000,
		"load_s":                   loadS,
		"vcgen_s":                  genS,
		"known_findings_hit":       len(uniq),
		"per_obligation":           obl,
		"bounded":                  bounded,
		"contract_source":          e.contractSrc,
		"contract_scan":            e.contracts.Scan,
		"samples":                  samples,
		"extraction_drops":         extractionDrops,
		"paper_argument":           extra.paper,
	}
	writeJSON(evPath, ev)
	if verbose {
		for _, r := range res.reports {
			fmt.Printf("  %s: %d obligations %s%s\n", r.Func, r.Obligations, r.Error, r.Unsupported)
		}
	}
	fmt.Printf("gvc %s [%s]: %d/%d obligations discharged, %d covers reachable, %d known findings, %d violations, %.1fs\n", prop, tier, discharged, total, coversOK, len(uniq), nviol, time.Since(t0).Seconds())
	return exit
}

func tailOfQuery(o *Obligation) string {
	if o.vc == nil {
		return ""
	}
	return truncate(fmt.Sprintf("... %d assertions ...\n(assert %s)\n(assert (not %s))\n(check-sat)", o.pos, o.guard, o.formula), 900)
}

var standingAssumptions = []string{
	"integers are mathematical (no wrap-around); conversions keep values that fit",
	"calls other than declared may-panic calls do not panic; run-time checks (nil, bounds, type assertions) that are not claimed as safety obligations are assumed to pass",
	"pointers to struct types declared in /repo address whole allocations (no interior pointers to such structs); slices do not alias array fields",
	"goroutines are not interleaved; map iteration order is arbitrary",
	"strings are abstract values with length, byte view and equality only",
	"unknown function values and callees without contract: default frame (may write any escaping memory), do not fire ghost events",
}

var extractionDrops = "source positions, comments; generic instantiation per use; goroutine interleavings; panics other than declared may-panic calls; unsafe; finalizers; integer wrap-around; string contents beyond length/bytes/equality; map iteration order; the body of every callee (calls are by contract)"

type replayInfo struct {
	path      string
	confirmed bool
}

func writeReplay(e *Engine, dir, prop string, o *Obligation) replayInfo {
	os.MkdirAll(dir, 0o755)
	path := filepath.Join(dir, sanitize(o.Name)+".json")
	rec := map[string]interface{}{
		"property":   prop,
		"obligation": o.Name,
		"kind":       o.Kind,
		"function":   o.Func,
		"clause":     o.Clause,
		"src":        o.Src,
		"result":     o.Result,
		"backend":    o.Backend,
		"solver_output": truncate(o.Model, 20000),
	}
	confirmed := false
	if o.vc != nil {
		rec["query_tail"] = tailOfQuery(o)
		if rt := buildReplay(e, o); rt != nil {
			rec["replay_test"] = rt.source
			rec["replay_cmd"] = rt.cmd
			rec["replay_pkg_dir"] = rt.dir
			rec["replay_file"] = rt.file
			out, failed, err := rt.run(e)
			rec["replay_output"] = truncate(out, 8000)
			if err == nil && failed {
				confirmed = true
				rec["replay_verdict"] = "the real code violates the obligation on the solver's input"
			} else if err == nil {
				rec["replay_verdict"] = "the real code satisfied the obligation on this input (obligation reported without a failing input)"
			} else {
				rec["replay_verdict"] = "replay could not run: " + err.Error()
			}
		}
	} else if o.Model != "" {
		rec["witness"] = o.Model
		confirmed = o.Kind == "bounded"
	}
	rec["confirmed_on_real_code"] = confirmed
	writeJSON(path, rec)
	return replayInfo{path, confirmed}
}

func runReplay(repo, verif, file string) int {
	data, err := os.ReadFile(file)
	if err != nil {
		fmt.Fprintln(os.Stderr, err)
		return 3
	}
	fmt.Println(truncate(string(data), 6000))
	return replayFromFile(repo, verif, data)
}
