//go:build verif

// Contracts for package schema (comment-only; compiled only under the verif tag).
package schema

//@ package gorm.io/gorm/schema

//@ # ---------- C11: key values handed to the IN query are the parents' key values, row by row ----------
//@ func ToQueryValues
//@   tags C11 safety
//@   assumes rows-have-a-value: len(foreignKeys) == 1 ==> forall(k, 0, len(foreignValues), len(foreignValues[k]) >= 1)
//@   modifies nothing
//@   loop 1 invariant filled-so-far: len(queryValues) == len(foreignValues) && fresh(queryValues) && forall(k, 0, iter, queryValues[k] == foreignValues[k][0])
//@   loop 2 invariant columns-so-far: len(columns) == len(foreignKeys) && fresh(columns) && forall(k, 0, iter, columns[k] == clause.Column{Table: table, Name: foreignKeys[k]})
//@   loop 3 invariant filled-so-far: len(queryValues) == len(foreignValues) && fresh(queryValues) && forall(k, 0, iter, queryValues[k] == foreignValues[k])
//@   ensures one-value-per-row: len(result1) == len(foreignValues)
//@   ensures single-key-values: len(foreignKeys) == 1 ==> forall(k, 0, len(foreignValues), result1[k] == foreignValues[k][0])
//@   ensures single-key-column: len(foreignKeys) == 1 ==> result0 == clause.Column{Table: table, Name: foreignKeys[0]}
//@   ensures composite-key-rows: len(foreignKeys) != 1 ==> forall(k, 0, len(foreignValues), result1[k] == foreignValues[k])

//@ # ---------- C03: a scan holder never keeps the serializer instance it has just handed to a record ----------
//@ # The *serializer holders are pooled and reused for later rows. After a successful Scan the record may hold the
//@ # holder's Serializer object itself (field type == serializer type), so the holder must get a newly allocated
//@ # instance before it goes back to the pool; otherwise later rows overwrite what earlier records loaded.
//@ ghost newInstances lastNewPtr
//@ event call reflect.New
//@   in schema.(*Field).setupValuerAndSetter$*
//@   do newInstances = newInstances + 1
//@   do lastNewPtr = result.ptr
//@ func (*Field).setupValuerAndSetter${invoke:SerializerInterface.Scan}
//@   tags C03
//@   ensures scanned-holder-gets-new-instance: is(v, *serializer) && old(v.(*serializer).fieldValue) == nil && result == nil ==> newInstances == old(newInstances) + 1 && boxof(v.(*serializer).Serializer) == uf("ifaceOfValue", lastNewPtr)
