package main

import (
	_ "golang.org/x/tools/go/callgraph/cha"
	_ "golang.org/x/tools/go/packages"
	_ "golang.org/x/tools/go/ssa"
	_ "golang.org/x/tools/go/ssa/ssautil"
)

func main() {}
