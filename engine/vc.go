package main

import (
	"os"
	"fmt"
	"go/token"
	"go/types"
	"sort"
	"strings"

	"golang.org/x/tools/go/ssa"
)

// ---------- obligations ----------
type Obligation struct {
	Name    string   `json:"name"`
	Kind    string   `json:"kind"`
	Func    string   `json:"func"`
	Clause  string   `json:"clause,omitempty"`
	Src     string   `json:"src,omitempty"`
	Tags    []string `json:"tags,omitempty"`
	guard   string
	formula string
	pos     int // number of assertions visible
	vc      *VC
	Result  string  `json:"result,omitempty"`
	Backend string  `json:"backend,omitempty"`
	Ms      int64   `json:"ms"`
	Model   string  `json:"-"`
	Cover   bool    `json:"cover,omitempty"` // must be satisfiable (vacuity guard)
	assertIdx int   // 1 + index of the assertion that restates this obligation for later ones
	skipFrom, skipTo int // assertions [skipFrom, skipTo) describe code after the obligation's program point and are left out
	localFrom int   // >0: obligation about a loop body; assumptions made before this assertion index are optional
	Info    map[string]string `json:"info,omitempty"`
}

type frameItem struct {
	kind     string // obj range everything region
	ref      string
	lo, hi   string
	text     string
	otype    types.Type // static type of the object written (struct / slice / map), when known
	flo, fhi int        // constant leaf range inside otype (fhi == 0: whole object)
	otid     int        // object-kind id for arrays and maps
	etype    types.Type // static type of the pointee for `*p` items on non-struct-allocation pointers
	width    int        // number of leaves of a range item when statically known
}

type State struct {
	guard   string
	mi, mr  string
	top     string
	ghost   map[string]string
	kept    map[string]bool
	visited map[string]string // per map-range iteration: (Array Int Bool) of keys already delivered
	dead    bool
}

func (s *State) clone() *State {
	n := *s
	n.ghost = map[string]string{}
	for k, v := range s.ghost {
		n.ghost[k] = v
	}
	n.kept = map[string]bool{}
	for k, v := range s.kept {
		n.kept[k] = v
	}
	n.visited = map[string]string{}
	for k, v := range s.visited {
		n.visited[k] = v
	}
	return &n
}

type Exit struct {
	st    *State
	ret   []Val
	panic bool
	site  ssa.Instruction
	desc  string
}

type deferRec struct {
	instr *ssa.Defer
	flag  string
	args  []Val
	fnVal Val
}

type inEdge struct {
	pred *ssa.BasicBlock
	st   *State
	pos  int // number of assertions when the edge was taken
}

type Act struct {
	fn      *ssa.Function
	env     map[ssa.Value]Val
	in      map[*ssa.BasicBlock][]inEdge
	defers  []*deferRec
	exits   []*Exit
	depth   int
	parent  *Act
	fc      *FuncContract
	phiOver map[*ssa.Phi]Val
	entry   *State
	lets    map[string]TV
	names   map[string]nameRef // source names -> value (via DebugRef/Alloc comments)
	curBlock *ssa.BasicBlock
	mayPanic map[string]bool
	loopFrameOf map[*ssa.BasicBlock]*loopFrame
	baseFrames  []loopFrame
	loopCutPos  map[*ssa.BasicBlock]int
}

type VC struct {
	eng     *Engine
	root    *ssa.Function
	fc      *FuncContract
	decls   []string
	asserts []string
	obs     []*Obligation
	ctr     int
	frame   []frameItem
	frameOn bool
	used    map[string]bool // assumptions used (external contracts, havocs)
	counts  map[string]int
	ifaceFacts map[string]bool
	checkSafety bool
	siteHits map[*Site]int
	declared map[string]bool
	ptrFacts []ptrFact
	finalized bool
	loopFrames []loopFrame
	memInfo    map[string]memStore
	obAsserts  map[int]bool // assertions that restate an earlier obligation
	foreignOb  map[int]bool // ... of an obligation that the running check does not decide: not assumed
	seenRef    map[string]bool
	seenRefs   []string
	boundNames []string // variables bound by the contract quantifiers being evaluated
	loadCache  map[string]*loadEntry
	nonlinear  bool // the code multiplies or divides by a non-constant
	pruned     int  // contract cases left out because the solver showed they cannot apply
	implFacts     []string
	implFactsDone bool
	quantSides [][]string
	immRefs    map[int][]string // per object type: references an immutable field has been read through
	seenRefTid map[string]int // static struct type id of references to whole-object structs
	pure       int // >0 while evaluating a quantifier body
	rangeIDs   map[*ssa.Range]string
	closureCtx *ClosureV
	symDeclared map[string]bool
	assertSyms  [][]string
	constGlobalVals map[string]Val
}

type ptrFact struct {
	ref, idx string
	elem     types.Type
}

// offsetsOf lists the leaf offsets inside t at which a value of static type e starts.
func offsetsOf(t, e types.Type, base int, out *[]int) {
	if types.Identical(t, e) {
		*out = append(*out, base)
	}
	switch u := t.Underlying().(type) {
	case *types.Struct:
		off := base
		for i := 0; i < u.NumFields(); i++ {
			offsetsOf(u.Field(i).Type(), e, off, out)
			off += width(u.Field(i).Type())
		}
	case *types.Array:
		if u.Len() <= 64 {
			w := width(u.Elem())
			for i := int64(0); i < u.Len(); i++ {
				offsetsOf(u.Elem(), e, base+int(i)*w, out)
			}
		}
	}
}

// finalize expands the typed-memory placeholders once all type ids are known.
func (vc *VC) finalize() {
	if vc.finalized {
		return
	}
	vc.finalized = true
	if len(vc.ptrFacts) == 0 {
		return
	}
	ids := make([]int, 0, len(vc.eng.typeByID))
	for id := range vc.eng.typeByID {
		ids = append(ids, id)
	}
	sort.Ints(ids)
	exp := make([]string, len(vc.ptrFacts))
	for n, pf := range vc.ptrFacts {
		var cs []string
		for _, id := range ids {
			t := vc.eng.typeByID[id]
			if types.IsInterface(t) {
				continue
			}
			if vc.eng.objKind[id] == "map" {
				cs = append(cs, fmt.Sprintf("(not (= (typ %s) %d))", pf.ref, id)) // no pointer addresses the inside of a map object
				continue
			}
			if sl, ok := t.(*types.Slice); ok && vc.eng.objKind[id] == "arr" {
				// array objects: element type from the id's slice type
				if at, isArr := pf.elem.Underlying().(*types.Array); isArr && types.Identical(at.Elem(), sl.Elem()) {
					continue
				}
				var offs []int
				func() {
					defer func() { recover() }()
					offsetsOf(sl.Elem(), pf.elem, 0, &offs)
				}()
				if len(offs) == 0 {
					cs = append(cs, fmt.Sprintf("(not (= (typ %s) %d))", pf.ref, id))
				}
				continue
			}
			var offs []int
			bad := false
			func() {
				defer func() {
					if recover() != nil {
						bad = true
					}
				}()
				offsetsOf(t, pf.elem, 0, &offs)
			}()
			if bad {
				continue
			}
			var alts []string
			for _, o := range offs {
				alts = append(alts, eq(pf.idx, fmt.Sprint(o)))
			}
			cs = append(cs, implies(fmt.Sprintf("(= (typ %s) %d)", pf.ref, id), or(alts...)))
		}
		cs = append(cs, implies(fmt.Sprintf("(= (typ %s) %d)", pf.ref, vc.tid(pf.elem)), eq(pf.idx, "0")))
		exp[n] = and(cs...)
	}
	re := func(s string) string {
		if !strings.Contains(s, "(@ptrwf@") {
			return s
		}
		for n := len(exp) - 1; n >= 0; n-- {
			s = strings.ReplaceAll(s, fmt.Sprintf("(@ptrwf@%d@)", n), exp[n])
		}
		return s
	}
	for i := range vc.asserts {
		vc.asserts[i] = re(vc.asserts[i])
	}
	for _, o := range vc.obs {
		o.formula = re(o.formula)
	}
}

func (vc *VC) fresh(prefix, sort string) string {
	vc.ctr++
	n := fmt.Sprintf("%s_%d", prefix, vc.ctr)
	vc.decls = append(vc.decls, fmt.Sprintf("(declare-const %s %s)", n, sort))
	return n
}
func (vc *VC) def(prefix, sort, term string) string {
	if isAtom(term) || (vc.pure > 0 && (vc.mentionsBound(term) || os.Getenv("GVC_HOIST") == "")) {
		// inside a quantifier body nothing that depends on a bound variable may be named; ground
		// subterms could be (GVC_HOIST=1), but hypotheses and goals then name the same memory
		// cell differently and E-matching has to rediscover the equality: measured 50x slower
		return term
	}
	n := vc.fresh(prefix, sort)
	vc.asserts = append(vc.asserts, fmt.Sprintf("(= %s %s)", n, term))
	return n
}
func isAtom(t string) bool {
	return !strings.ContainsAny(t, " (")
}
func (vc *VC) declareFun(name, sig string) {
	if vc.declared[name] {
		return
	}
	vc.declared[name] = true
	vc.decls = append(vc.decls, fmt.Sprintf("(declare-fun %s %s)", name, sig))
}
// mentionsBound: the term depends on a variable bound by an enclosing contract quantifier.
func (vc *VC) mentionsBound(term string) bool {
	for _, b := range vc.boundNames {
		if strings.Contains(term, b) {
			return true
		}
	}
	return false
}

func (vc *VC) assume(st *State, f string) {
	if f == "true" {
		return
	}
	if vc.pure > 0 && vc.mentionsBound(f) {
		// a typed-memory fact about a value read under a contract quantifier: it becomes a side
		// condition of that quantifier's body (see quantBody)
		// (only facts that type a reference: they decide aliasing; scalar range facts are left out, they
		// cost instantiations and were never needed)
		if n := len(vc.quantSides); n > 0 && os.Getenv("GVC_NOSIDES") == "" && strings.Contains(f, "(typ ") {
			vc.quantSides[n-1] = append(vc.quantSides[n-1], f)
		}
		return
	}
	vc.asserts = append(vc.asserts, implies(st.guard, f))
}
func (vc *VC) assertGlobal(f string) {
	if vc.pure > 0 {
		return
	}
	vc.asserts = append(vc.asserts, f)
}

func (vc *VC) oblige(st *State, o *Obligation, formula string) {
	o.guard = st.guard
	o.formula = formula
	o.pos = len(vc.asserts)
	o.vc = vc
	if o.Func == "" {
		o.Func = vc.eng.shortName(vc.root)
	}
	vc.counts[o.Kind]++
	vc.obs = append(vc.obs, o)
	// later obligations may assume this one held (covers do not: see query)
	if !o.Cover && formula != "false" { // (a structural failure is reported; assuming it would make the rest of the path vacuous)
		if vc.obAsserts == nil {
			vc.obAsserts = map[int]bool{}
		}
		vc.obAsserts[len(vc.asserts)] = true
		o.assertIdx = len(vc.asserts) + 1 // (1-based; 0 = not restated)
		vc.asserts = append(vc.asserts, implies(st.guard, formula))
	}
}

func (vc *VC) srcPos(p token.Pos) string {
	if !p.IsValid() {
		return ""
	}
	pos := vc.eng.fset.Position(p)
	return fmt.Sprintf("%s:%d", strings.TrimPrefix(pos.Filename, vc.eng.repo+"/"), pos.Line)
}

// ---------- memory ----------
func (vc *VC) sel(mem, ref, idx string) string {
	return fmt.Sprintf("(select (select %s %s) %s)", mem, ref, idx)
}

func (vc *VC) loadLeaves(st *State, p PtrV, t types.Type) []string {
	lay := layout(t)
	out := make([]string, len(lay))
	for k, kind := range lay {
		m := st.mi
		if kind == 'r' {
			m = st.mr
		}
		out[k] = vc.def("ld", "Int", vc.sel(m, p.ref, add(p.idx, k)))
	}
	return out
}

type loadEntry struct {
	v      Val
	guards map[string]bool
}

// load reads a value of type t at p. Reading the same cells of the same memory version again gives
// the value already named (memory versions are never redefined), so contracts that mention
// db.Statement twenty times cost one load; the typed-memory fact is restated per path guard.
func (vc *VC) load(st *State, p PtrV, t types.Type) Val {
	if cv, ok := vc.constGlobalVals[p.ref]; ok && p.idx == "0" {
		return cv
	}
	if vc.pure > 0 || os.Getenv("GVC_NOLOADCACHE") != "" {
		leaves := vc.loadLeaves(st, p, t)
		v, _ := unflatten(t, leaves)
		vc.assume(st, vc.wf(st, v, t))
		return v
	}
	key := st.mi + "|" + st.mr + "|" + p.ref + "|" + p.idx + "|" + types.TypeString(t, nil)
	if vc.loadCache == nil {
		vc.loadCache = map[string]*loadEntry{}
	}
	if e, ok := vc.loadCache[key]; ok {
		if !e.guards[st.guard] {
			e.guards[st.guard] = true
			vc.assume(st, vc.wf(st, e.v, t))
		}
		return e.v
	}
	leaves := vc.loadLeaves(st, p, t)
	v, _ := unflatten(t, leaves)
	vc.assume(st, vc.wf(st, v, t))
	vc.loadCache[key] = &loadEntry{v: v, guards: map[string]bool{st.guard: true}}
	return v
}

type memStore struct {
	parent, ref, idx, val string
	row                   bool // val is a whole row: (store parent ref val)
}

// storeRow: mem with the whole row of object ref replaced. Recorded like single-cell stores so that
// joins of memories that differ by havocked frames become guarded stores, not array-valued ites.
func (vc *VC) storeRow(prefix, mem, ref, row string) string {
	n := vc.def(prefix, memSort, fmt.Sprintf("(store %s %s %s)", mem, ref, row))
	if vc.memInfo == nil {
		vc.memInfo = map[string]memStore{}
	}
	if n != mem {
		vc.memInfo[n] = memStore{parent: mem, ref: ref, val: row, row: true}
	}
	return n
}

func (vc *VC) store1(prefix, mem, ref, idx, val string) string {
	n := vc.def(prefix, memSort, fmt.Sprintf("(store %s %s (store (select %s %s) %s %s))", mem, ref, mem, ref, idx, val))
	if vc.memInfo == nil {
		vc.memInfo = map[string]memStore{}
	}
	vc.memInfo[n] = memStore{parent: mem, ref: ref, idx: idx, val: val}
	return n
}

func (vc *VC) writeLeaves(st *State, ref, idx string, t types.Type, leaves []string) {
	lay := layout(t)
	for k, kind := range lay {
		if kind == 'r' {
			st.mr = vc.store1("MR", st.mr, ref, add(idx, k), leaves[k])
		} else {
			st.mi = vc.store1("MI", st.mi, ref, add(idx, k), leaves[k])
		}
	}
}

// mergeMem joins two memories. When both derive from a common ancestor by short chains of
// single-cell stores the join is a chain of guarded stores (no array-valued ite).
func (vc *VC) mergeMem(prefix, ga, a, gb, b string) string {
	if a == b {
		return a
	}
	const maxChain = 48
	chain := func(m string) []string {
		out := []string{m}
		for len(out) <= maxChain {
			s, ok := vc.memInfo[out[len(out)-1]]
			if !ok {
				break
			}
			out = append(out, s.parent)
		}
		return out
	}
	ca, cb := chain(a), chain(b)
	posB := map[string]int{}
	for i, m := range cb {
		posB[m] = i
	}
	ia, ib := -1, -1
	for i, m := range ca {
		if j, ok := posB[m]; ok {
			ia, ib = i, j
			break
		}
	}
	if ia < 0 || ia+ib > maxChain {
		return vc.def(prefix, memSort, ite(ga, a, b))
	}
	cur := ca[ia]
	apply := func(g string, ch []string, n int) {
		for k := n - 1; k >= 0; k-- {
			s := vc.memInfo[ch[k]]
			if s.row {
				cur = vc.storeRow(prefix, cur, s.ref, ite(g, s.val, fmt.Sprintf("(select %s %s)", cur, s.ref)))
				continue
			}
			old := fmt.Sprintf("(select (select %s %s) %s)", cur, s.ref, s.idx)
			cur = vc.store1(prefix, cur, s.ref, s.idx, ite(g, s.val, old))
		}
	}
	apply(ga, ca, ia)
	apply(gb, cb, ib)
	return cur
}

func (vc *VC) store(st *State, p PtrV, t types.Type, v Val, what string, pos token.Pos) {
	w := width(t)
	vc.frameCheck(st, p.ref, p.idx, add(p.idx, w), "store", what, pos)
	vc.writeLeaves(st, p.ref, p.idx, t, flatten(v))
}

// frameCheck emits the K3 obligation: the written cells are fresh or inside the declared frame.
type loopFrame struct {
	items []frameItem
	top   string
	name  string
	tags  []string
}

func (vc *VC) frameActive() bool { return vc.frameOn || len(vc.loopFrames) > 0 }

func (vc *VC) frameCheck(st *State, ref, lo, hi, kind, what string, pos token.Pos) {
	if !vc.frameActive() {
		return
	}
	if st.kept[ref] {
		return
	}
	f := vc.inFrame(ref, lo, hi)
	if f == "true" {
		return
	}
	n := vc.counts["frame#"+kind+"#"+what]
	vc.counts["frame#"+kind+"#"+what]++
	vc.oblige(st, &Obligation{Name: fmt.Sprintf("%s#frame#%s#%s#%d", vc.eng.shortName(vc.root), kind, what, n), Kind: "frame", Src: vc.srcPos(pos), Tags: vc.frameTags(), Clause: "modifies " + vc.frameText()}, f)
}

func (vc *VC) frameTags() []string {
	if vc.fc == nil {
		return nil
	}
	for _, m := range vc.fc.Modifies {
		if len(m.Tags) > 0 {
			return m.Tags
		}
	}
	return vc.fc.Tags
}
func (vc *VC) frameText() string {
	var t []string
	for _, it := range vc.frame {
		t = append(t, it.text)
	}
	if len(t) == 0 {
		return "nothing"
	}
	return strings.Join(t, ", ")
}

func itemsCover(items []frameItem, base, ref, lo, hi string) string {
	alts := []string{fmt.Sprintf("(>= %s %s)", ref, base)}
	for _, it := range items {
		switch it.kind {
		case "everything":
			return "true"
		case "obj":
			alts = append(alts, eq(ref, it.ref))
		case "range":
			if lo == "" {
				continue
			}
			alts = append(alts, and(eq(ref, it.ref), fmt.Sprintf("(<= %s %s)", it.lo, lo), fmt.Sprintf("(<= %s %s)", hi, it.hi)))
		}
	}
	return or(alts...)
}

// inFrame: the cells are fresh or inside the function's frame, and likewise for every enclosing
// loop that carries a `loop ... modifies` annotation (fresh = allocated since that loop was entered).
func (vc *VC) inFrame(ref, lo, hi string) string {
	var cs []string
	if vc.frameOn {
		cs = append(cs, itemsCover(vc.frame, "alloc0", ref, lo, hi))
	}
	for _, lf := range vc.loopFrames {
		cs = append(cs, itemsCover(lf.items, lf.top, ref, lo, hi))
	}
	return and(cs...)
}

func (vc *VC) tid(t types.Type) int { return vc.eng.tid(t) }

// elemIdx: leaf index of element idx of a slice with offset off and element width w. For w > 1 it
// is the term (elem_w off idx), defined by a triggered axiom, so that quantified contract clauses
// over element indices are instantiated by E-matching on the very terms the code produces.
func (vc *VC) elemIdx(off, idx string, w int) string {
	if w == 1 && (os.Getenv("GVC_ELEM1") == "" || isConstInt(idx)) {
		return plusT(off, idx)
	}
	name := fmt.Sprintf("elem_%d", w)
	if !vc.declared[name] {
		vc.declared[name] = true
		vc.decls = append(vc.decls, fmt.Sprintf("(declare-fun %s (Int Int) Int)", name))
		vc.decls = append(vc.decls, fmt.Sprintf("(assert (forall ((o Int) (k Int)) (! (= (%s o k) (* (+ o k) %d)) :pattern ((%s o k)))))", name, w, name))
	}
	return fmt.Sprintf("(%s %s %s)", name, off, idx)
}

// mapSlot: leaf index of the presence flag of key in a map object whose entries are w leaves wide.
// A declared function with a triggered axiom, so that quantified facts about map keys are
// instantiated on the very terms the code and the contracts produce.
func (vc *VC) mapSlot(key string, w int) string {
	name := fmt.Sprintf("mapslot_%d", w)
	if !vc.declared[name] {
		vc.declared[name] = true
		vc.decls = append(vc.decls, fmt.Sprintf("(declare-fun %s (Int) Int)", name))
		vc.decls = append(vc.decls, fmt.Sprintf("(assert (forall ((k Int)) (! (= (%s k) (* k %d)) :pattern ((%s k)))))", name, w, name))
	}
	return fmt.Sprintf("(%s %s)", name, key)
}

// noteRef remembers object references seen so far (ground instances of havoc axioms are
// generated for them).
func (vc *VC) noteRef(r string) {
	if r == "" || r == "0" || !isAtom(r) || vc.seenRef[r] {
		return
	}
	if vc.seenRef == nil {
		vc.seenRef = map[string]bool{}
	}
	vc.seenRef[r] = true
	vc.seenRefs = append(vc.seenRefs, r)
}

// noteImmRef records that a field of an object of struct type t was addressed through ref; when the
// field is immutable (K3) the reference gets a ground instance of the preservation axiom at every havoc.
func (vc *VC) noteImmRef(t types.Type, off int, ref string) {
	if len(vc.eng.immutableLeaves) == 0 || !isAtom(ref) {
		return
	}
	tid := -1
	for _, im := range vc.eng.immutableLeaves {
		if im.leaf == off || (im.leaf > off && im.leaf < off+4) {
			if tid < 0 {
				tid = vc.tid(t)
			}
			if im.tid == tid {
				if vc.immRefs == nil {
					vc.immRefs = map[int][]string{}
				}
				for _, r := range vc.immRefs[tid] {
					if r == ref {
						return
					}
				}
				vc.immRefs[tid] = append(vc.immRefs[tid], ref)
				return
			}
		}
	}
}

func (vc *VC) allocObj(st *State, t types.Type, zero bool) PtrV {
	ref := vc.def("obj", "Int", st.top)
	st.top = vc.def("top", "Int", fmt.Sprintf("(+ %s 1)", ref))
	if at, ok := t.Underlying().(*types.Array); ok {
		// array objects are typed like the backing arrays of slices of their element type
		vc.assume(st, fmt.Sprintf("(= (typ %s) %d)", ref, vc.eng.arrTid(at.Elem())))
	} else {
		vc.assume(st, fmt.Sprintf("(= (typ %s) %d)", ref, vc.tid(t)))
	}
	if zero {
		lay := layout(t)
		z := make([]string, len(lay))
		for i := range z {
			z[i] = "0"
		}
		vc.writeLeaves(st, ref, "0", t, z)
	}
	return PtrV{ref, "0"}
}

// allocMapObj allocates a map object.
func (vc *VC) allocMapObj(st *State, mt types.Type) PtrV {
	ref := vc.def("obj", "Int", st.top)
	st.top = vc.def("top", "Int", fmt.Sprintf("(+ %s 1)", ref))
	vc.assume(st, fmt.Sprintf("(= (typ %s) %d)", ref, vc.eng.mapTid(mt)))
	return PtrV{ref, "0"}
}

// allocArray allocates a backing array object (contents unspecified unless zeroed by caller).
func (vc *VC) allocArray(st *State, elem types.Type) string {
	ref := vc.def("arr", "Int", st.top)
	st.top = vc.def("top", "Int", fmt.Sprintf("(+ %s 1)", ref))
	vc.assume(st, fmt.Sprintf("(= (typ %s) %d)", ref, vc.eng.arrTid(elem)))
	return ref
}

// wf returns the well-formedness formula of a value of static type t in state st.
func (vc *VC) wf(st *State, v Val, t types.Type) string {
	switch u := t.Underlying().(type) {
	case *types.Pointer:
		p := v.(PtrV)
		vc.noteRef(p.ref)
		if vc.eng.wholeObjectType(u.Elem()) && isAtom(p.ref) {
			if vc.seenRefTid == nil {
				vc.seenRefTid = map[string]int{}
			}
			vc.seenRefTid[p.ref] = vc.tid(u.Elem())
		}
		cs := []string{fmt.Sprintf("(>= %s 0)", p.ref), vc.belowTop(st, p.ref), implies(eq(p.ref, "0"), eq(p.idx, "0")), fmt.Sprintf("(>= %s 0)", p.idx)}
		if vc.eng.wholeObjectType(u.Elem()) {
			cs = append(cs, implies(fmt.Sprintf("(> %s 0)", p.ref), and(fmt.Sprintf("(= (typ %s) %d)", p.ref, vc.tid(u.Elem())), eq(p.idx, "0"))))
		} else if isAtom(p.ref) && isAtom(p.idx) {
			// typed memory: a *E addresses a leaf run of static type E (expanded in finalize)
			vc.ptrFacts = append(vc.ptrFacts, ptrFact{p.ref, p.idx, u.Elem()})
			cs = append(cs, fmt.Sprintf("(@ptrwf@%d@)", len(vc.ptrFacts)-1))
		}
		return and(cs...)
	case *types.Slice:
		s := v.(SliceV)
		return and(fmt.Sprintf("(>= %s 0)", s.ref), vc.belowTop(st, s.ref), fmt.Sprintf("(>= %s 0)", s.off), fmt.Sprintf("(>= %s 0)", s.ln), fmt.Sprintf("(<= %s %s)", s.ln, s.cp),
			implies(eq(s.ref, "0"), and(eq(s.cp, "0"), eq(s.off, "0"))),
			implies(fmt.Sprintf("(> %s 0)", s.ref), fmt.Sprintf("(= (typ %s) %d)", s.ref, vc.eng.arrTid(u.Elem()))))
	case *types.Interface:
		i := v.(IfaceV)
		return and(fmt.Sprintf("(>= %s 0)", i.tag), implies(eq(i.tag, "0"), eq(i.box, "0")))
	case *types.Map:
		m := v.(MapV)
		vc.noteRef(m.ref)
		return and(fmt.Sprintf("(>= %s 0)", m.ref), vc.belowTop(st, m.ref), implies(fmt.Sprintf("(> %s 0)", m.ref), fmt.Sprintf("(= (typ %s) %d)", m.ref, vc.eng.mapTid(t))))
	case *types.Chan:
		c := v.(IntV)
		return and(fmt.Sprintf("(>= %s 0)", c.t), vc.belowTop(st, c.t))
	case *types.Struct:
		sv := v.(StructV)
		var cs []string
		for i := 0; i < u.NumFields(); i++ {
			cs = append(cs, vc.wf(st, sv.f[i], u.Field(i).Type()))
		}
		return and(cs...)
	case *types.Array:
		sv, ok := v.(StructV)
		if !ok {
			return "true"
		}
		var cs []string
		for i := range sv.f {
			cs = append(cs, vc.wf(st, sv.f[i], u.Elem()))
		}
		return and(cs...)
	case *types.Tuple:
		tv := v.(TupleV)
		var cs []string
		for i := range tv.f {
			cs = append(cs, vc.wf(st, tv.f[i], u.At(i).Type()))
		}
		return and(cs...)
	case *types.Basic:
		iv, ok := v.(IntV)
		if !ok {
			return "true"
		}
		switch {
		case u.Info()&types.IsBoolean != 0:
			return or(eq(iv.t, "0"), eq(iv.t, "1"))
		case u.Info()&types.IsUnsigned != 0:
			switch u.Kind() {
			case types.Uint8:
				return fmt.Sprintf("(and (>= %s 0) (<= %s 255))", iv.t, iv.t)
			case types.Uint16:
				return fmt.Sprintf("(and (>= %s 0) (<= %s 65535))", iv.t, iv.t)
			case types.Uint32:
				return fmt.Sprintf("(and (>= %s 0) (<= %s 4294967295))", iv.t, iv.t)
			}
			return fmt.Sprintf("(>= %s 0)", iv.t)
		case u.Info()&types.IsInteger != 0:
			switch u.Kind() {
			case types.Int8:
				return fmt.Sprintf("(and (>= %s (- 128)) (<= %s 127))", iv.t, iv.t)
			case types.Int16:
				return fmt.Sprintf("(and (>= %s (- 32768)) (<= %s 32767))", iv.t, iv.t)
			case types.Int32:
				return fmt.Sprintf("(and (>= %s (- 2147483648)) (<= %s 2147483647))", iv.t, iv.t)
			}
		}
	}
	return "true"
}

// freshVal makes an unconstrained (but well-formed) value of type t.
func (vc *VC) freshVal(st *State, prefix string, t types.Type) Val {
	lay := layout(t)
	ls := make([]string, len(lay))
	for k := range ls {
		ls[k] = vc.fresh(prefix, "Int")
	}
	v, _ := unflatten(t, ls)
	vc.assume(st, vc.wf(st, v, t))
	return v
}

// havocAll: the default frame of an unknown callee. Non-escaping locals survive.
func (vc *VC) havocAll(st *State, why string) {
	nmi, nmr := vc.fresh("MI", memSort), vc.fresh("MR", memSort)
	keys := make([]string, 0, len(st.kept))
	for r := range st.kept {
		keys = append(keys, r)
	}
	sort.Strings(keys)
	for _, r := range keys {
		vc.assume(st, fmt.Sprintf("(= (select %s %s) (select %s %s))", nmi, r, st.mi, r))
		vc.assume(st, fmt.Sprintf("(= (select %s %s) (select %s %s))", nmr, r, st.mr, r))
	}
	// immutable fields (K3 lemma) survive every call: one axiom per object type (all its immutable
	// leaves together), plus ground instances for the objects already known by reference
	byTid := map[int][]immLeaf{}
	var tids []int
	for _, im := range vc.eng.immutableLeaves {
		if _, ok := byTid[im.tid]; !ok {
			tids = append(tids, im.tid)
		}
		byTid[im.tid] = append(byTid[im.tid], im)
	}
	sort.Ints(tids)
	for _, tid := range tids {
		same := func(r string) string {
			var cs []string
			for _, im := range byTid[tid] {
				mem, nmem := st.mi, nmi
				if im.kind == 'r' {
					mem, nmem = st.mr, nmr
				}
				cs = append(cs, fmt.Sprintf("(= (select (select %s %s) %d) (select (select %s %s) %d))", nmem, r, im.leaf, mem, r, im.leaf))
			}
			return and(cs...)
		}
		pats := fmt.Sprintf("(select %s r)", nmi)
		hasR := false
		for _, im := range byTid[tid] {
			if im.kind == 'r' {
				hasR = true
			}
		}
		if hasR {
			pats += fmt.Sprintf(") :pattern ((select %s r)", nmr)
		}
		vc.assume(st, fmt.Sprintf("(forall ((r Int)) (! (=> (= (typ r) %d) %s) :pattern (%s)))", tid, same("r"), pats))
		// parameters and call results first (they name the handles contracts talk about), then the most recent loads
		var refs []string
		other := 0
		direct := map[string]bool{}
		if ir := vc.immRefs[tid]; len(ir) > 0 {
			for k := len(ir) - 1; k >= 0 && len(refs) < 24; k-- {
				refs = append(refs, ir[k])
				direct[ir[k]] = true
			}
		}
		for k := len(vc.seenRefs) - 1; k >= 0; k-- {
			r := vc.seenRefs[k]
			if vc.seenRefTid[r] != tid || direct[r] {
				continue
			}
			if strings.HasPrefix(r, "arg_") || strings.HasPrefix(r, "ret_") || strings.HasPrefix(r, "fv_") {
				if len(refs) < 40 {
					refs = append(refs, r)
				}
			} else if other < 8 {
				other++
				refs = append(refs, r)
			}
		}
		for _, r := range refs {
			vc.assume(st, fmt.Sprintf("(=> (= (typ %s) %d) %s)", r, tid, same(r)))
		}
	}
	oldTop := st.top
	st.mi, st.mr = nmi, nmr
	st.top = vc.fresh("top", "Int")
	vc.assume(st, fmt.Sprintf("(>= %s %s)", st.top, oldTop))
	// references stored anywhere stay below top
	vc.used["havoc:"+why] = true
}

// havocItems applies a callee frame (already resolved against the pre-state).
func (vc *VC) havocItems(st *State, items []frameItem, ghosts []string) {
	for _, it := range items {
		switch it.kind {
		case "obj":
			ri := vc.fresh("row", "(Array Int Int)")
			rr := vc.fresh("row", "(Array Int Int)")
			st.mi = vc.storeRow("MI", st.mi, it.ref, ri)
			st.mr = vc.storeRow("MR", st.mr, it.ref, rr)
		case "range":
			if it.width > 0 && it.width <= 64 {
				// a statically known, small run of leaves: fresh values stored one by one (quantifier-free)
				ri := fmt.Sprintf("(select %s %s)", st.mi, it.ref)
				rr := fmt.Sprintf("(select %s %s)", st.mr, it.ref)
				for k := 0; k < it.width; k++ {
					ri = fmt.Sprintf("(store %s %s %s)", ri, add(it.lo, k), vc.fresh("hv", "Int"))
					rr = fmt.Sprintf("(store %s %s %s)", rr, add(it.lo, k), vc.fresh("hv", "Int"))
				}
				st.mi = vc.storeRow("MI", st.mi, it.ref, ri)
				st.mr = vc.storeRow("MR", st.mr, it.ref, rr)
				continue
			}
			// finite ranges only: lo/hi constants apart
			ri := vc.fresh("row", "(Array Int Int)")
			rr := vc.fresh("row", "(Array Int Int)")
			vc.assume(st, fmt.Sprintf("(forall ((j Int)) (! (=> (or (< j %s) (>= j %s)) (= (select %s j) (select (select %s %s) j))) :pattern ((select %s j))))", it.lo, it.hi, ri, st.mi, it.ref, ri))
			vc.assume(st, fmt.Sprintf("(forall ((j Int)) (! (=> (or (< j %s) (>= j %s)) (= (select %s j) (select (select %s %s) j))) :pattern ((select %s j))))", it.lo, it.hi, rr, st.mr, it.ref, rr))
			st.mi = vc.storeRow("MI", st.mi, it.ref, ri)
			st.mr = vc.storeRow("MR", st.mr, it.ref, rr)
		}
	}
	for _, g := range ghosts {
		st.ghost[g] = vc.fresh("gh_"+g, "Int")
	}
	oldTop := st.top
	st.top = vc.fresh("top", "Int")
	vc.assume(st, fmt.Sprintf("(>= %s %s)", st.top, oldTop))
}

// rangeWrite: cells [start, start+count) of object dst get the cells of src starting at sstart.
func (vc *VC) rangeWrite(st *State, dst, start, count, src, sstart string) {
	for _, which := range []string{"MI", "MR"} {
		cur := &st.mi
		if which == "MR" {
			cur = &st.mr
		}
		row := vc.fresh("row", "(Array Int Int)")
		vc.assume(st, fmt.Sprintf("(forall ((j Int)) (! (= (select %s j) (ite (and (<= %s j) (< j (+ %s %s))) (select (select %s %s) (+ %s (- j %s))) (select (select %s %s) j))) :pattern ((select %s j))))",
			row, start, start, count, *cur, src, sstart, start, *cur, dst, row))
		*cur = vc.storeRow(which, *cur, dst, row)
	}
}

// ---------- merging ----------
func (vc *VC) mergeStates(sts []*State) *State {
	var live []*State
	for _, s := range sts {
		if s != nil && !s.dead && s.guard != "false" {
			live = append(live, s)
		}
	}
	if len(live) == 0 {
		return &State{guard: "false", dead: true, ghost: map[string]string{}, kept: map[string]bool{}, visited: map[string]string{}, mi: "MI0", mr: "MR0", top: "alloc0"}
	}
	if len(live) == 1 {
		return live[0].clone()
	}
	out := live[0].clone()
	gs := make([]string, len(live))
	for i, s := range live {
		gs[i] = s.guard
	}
	out.guard = vc.def("g", "Bool", or(gs...))
	pick := func(get func(*State) string, sort, prefix string) string {
		t := get(live[len(live)-1])
		same := true
		for _, s := range live {
			if get(s) != t {
				same = false
			}
		}
		if same {
			return t
		}
		for i := len(live) - 2; i >= 0; i-- {
			t = ite(live[i].guard, get(live[i]), t)
		}
		return vc.def(prefix, sort, t)
	}
	out.mi, out.mr = live[0].mi, live[0].mr
	accG := live[0].guard
	for i := 1; i < len(live); i++ {
		out.mi = vc.mergeMem("MI", accG, out.mi, live[i].guard, live[i].mi)
		out.mr = vc.mergeMem("MR", accG, out.mr, live[i].guard, live[i].mr)
		accG = or(accG, live[i].guard)
	}
	out.top = pick(func(s *State) string { return s.top }, "Int", "top")
	keys := map[string]bool{}
	for _, s := range live {
		for k := range s.ghost {
			keys[k] = true
		}
		for k := range s.kept {
			out.kept[k] = true
		}
	}
	for _, k := range sortedSet(keys) {
		kk := k
		out.ghost[k] = pick(func(s *State) string {
			if v, ok := s.ghost[kk]; ok {
				return v
			}
			return "0"
		}, "Int", "gh_"+k)
	}
	vkeys := map[string]bool{}
	for _, s := range live {
		for k := range s.visited {
			vkeys[k] = true
		}
	}
	for _, k := range sortedSet(vkeys) {
		kk := k
		out.visited[k] = pick(func(s *State) string {
			if v, ok := s.visited[kk]; ok {
				return v
			}
			return "((as const (Array Int Bool)) false)"
		}, "(Array Int Bool)", "vis")
	}
	return out
}

func (vc *VC) mergeVals(sts []*State, vals []Val) Val {
	if len(vals) == 0 {
		return nil
	}
	out := vals[len(vals)-1]
	for i := len(vals) - 2; i >= 0; i-- {
		out = iteVal(sts[i].guard, vals[i], out)
	}
	ls := flatten(out)
	for i := range ls {
		ls[i] = vc.def("phi", "Int", ls[i])
	}
	return rebuildLike(out, ls)
}

// ---------- strings ----------
func (vc *VC) strLit(s string) string {
	if s == "" {
		return "0"
	}
	id := vc.eng.strID(s)
	key := fmt.Sprintf("strlit:%d", id)
	if !vc.declared[key] {
		vc.declared[key] = true
		vc.assertGlobal(fmt.Sprintf("(= (strlen %d) %d)", id, len(s)))
		if len(s) <= 24 {
			for i := 0; i < len(s); i++ {
				vc.assertGlobal(fmt.Sprintf("(= (strbyte %d %d) %d)", id, i, s[i]))
			}
		}
	}
	return fmt.Sprint(id)
}
func (vc *VC) strLen(st *State, s string) string {
	t := fmt.Sprintf("(strlen %s)", s)
	if isAtom(s) {
		if _, err := fmt.Sscan(s, new(int)); err == nil {
			return t
		}
	}
	n := vc.def("slen", "Int", t)
	vc.assertGlobal(fmt.Sprintf("(and (>= %s 0) (= (= %s 0) (= %s 0)))", n, n, s))
	return n
}

// ---------- interface boxes ----------
// A boxed value of dynamic type T is the value id mkbox_T(leaves); unbox_T_k are its inverses.
func (vc *VC) boxFuns(t types.Type) (mk string, un []string) {
	id := vc.tid(t)
	n := width(t)
	mk = fmt.Sprintf("mkbox_%d", id)
	sig := "(" + strings.TrimSpace(strings.Repeat("Int ", n)) + ") Int"
	vc.declareFun(mk, sig)
	for k := 0; k < n; k++ {
		f := fmt.Sprintf("unbox_%d_%d", id, k)
		vc.declareFun(f, "(Int) Int")
		un = append(un, f)
	}
	return
}

func (vc *VC) makeIface(st *State, v Val, t types.Type) IfaceV {
	if types.IsInterface(t) {
		return v.(IfaceV)
	}
	leaves := flatten(v)
	mk, un := vc.boxFuns(t)
	var box string
	if len(leaves) == 0 {
		box = "(" + mk + ")"
		box = mk
	} else {
		box = vc.def("box", "Int", "("+mk+" "+strings.Join(leaves, " ")+")")
	}
	for k, u := range un {
		vc.assertGlobal(fmt.Sprintf("(= (%s %s) %s)", u, box, leaves[k]))
	}
	vc.assertGlobal(fmt.Sprintf("(> %s 0)", box))
	return IfaceV{fmt.Sprint(vc.tid(t)), box}
}

// unbox extracts the payload of dynamic type t (meaningful only when tag == tid(t)).
func (vc *VC) unbox(st *State, x IfaceV, t types.Type) Val {
	mk, un := vc.boxFuns(t)
	leaves := make([]string, len(un))
	for k, u := range un {
		leaves[k] = vc.def("ub", "Int", fmt.Sprintf("(%s %s)", u, x.box))
	}
	isT := eq(x.tag, fmt.Sprint(vc.tid(t)))
	if len(leaves) > 0 {
		vc.assertGlobal(implies(isT, fmt.Sprintf("(= (%s %s) %s)", mk, strings.Join(leaves, " "), x.box)))
	}
	v, _ := unflatten(t, leaves)
	if vc.pure == 0 {
		vc.asserts = append(vc.asserts, implies(and(st.guard, isT), vc.wf(st, v, t)))
	}
	return v
}

func (vc *VC) implementsTerm(tag string, iface types.Type) string {
	iid := vc.tid(iface)
	vc.declareFun("implements", "(Int Int) Bool")
	vc.eng.noteIface(iface)
	vc.ifaceFacts[fmt.Sprint(iid)] = true
	return fmt.Sprintf("(implements %s %d)", tag, iid)
}

func isConstInt(s string) bool {
	_, err := parseInt(s)
	return err == nil
}

// sortedSet: the keys of a set in a fixed order (the text of a VC must not depend on map iteration order: the
// solvers' running time on it does).
func sortedSet(m map[string]bool) []string {
	out := make([]string, 0, len(m))
	for k := range m {
		out = append(out, k)
	}
	sort.Strings(out)
	return out
}

// belowTop: the reference is an object that exists in state st. Under a contract quantifier the bound is left
// out: the fact is used as a side condition of the quantified body, and a bound that names the allocation counter
// of one particular state would make the same invariant differ textually (and logically) from state to state.
func (vc *VC) belowTop(st *State, ref string) string {
	if vc.pure > 0 && vc.mentionsBound(ref) {
		return "true"
	}
	return fmt.Sprintf("(< %s %s)", ref, st.top)
}
