package main

import (
	"fmt"
	"go/constant"
	"go/token"
	"go/types"
	"os"
	"sort"
	"strings"

	"golang.org/x/tools/go/ssa"
)

// ---------- control flow: DAG evaluation with loop cutting ----------

func isBackEdge(p, b *ssa.BasicBlock) bool { return b.Dominates(p) }

func rpo(fn *ssa.Function) []*ssa.BasicBlock {
	seen := map[*ssa.BasicBlock]bool{}
	var post []*ssa.BasicBlock
	var dfs func(b *ssa.BasicBlock)
	dfs = func(b *ssa.BasicBlock) {
		seen[b] = true
		for _, s := range b.Succs {
			if !seen[s] && !isBackEdge(b, s) {
				dfs(s)
			}
		}
		post = append(post, b)
	}
	dfs(fn.Blocks[0])
	for i, j := 0, len(post)-1; i < j; i, j = i+1, j-1 {
		post[i], post[j] = post[j], post[i]
	}
	return post
}

// natural loop body of header h
func loopBody(h *ssa.BasicBlock) map[*ssa.BasicBlock]bool {
	body := map[*ssa.BasicBlock]bool{h: true}
	var stack []*ssa.BasicBlock
	for _, p := range h.Preds {
		if isBackEdge(p, h) && !body[p] {
			body[p] = true
			stack = append(stack, p)
		}
	}
	for len(stack) > 0 {
		b := stack[len(stack)-1]
		stack = stack[:len(stack)-1]
		for _, p := range b.Preds {
			if !body[p] {
				body[p] = true
				stack = append(stack, p)
			}
		}
	}
	return body
}

func isLoopHeader(b *ssa.BasicBlock) bool {
	for _, p := range b.Preds {
		if isBackEdge(p, b) {
			return true
		}
	}
	return false
}

func (vc *VC) newAct(fn *ssa.Function, parent *Act) *Act {
	a := &Act{fn: fn, env: map[ssa.Value]Val{}, in: map[*ssa.BasicBlock][]inEdge{}, parent: parent, phiOver: map[*ssa.Phi]Val{}, lets: map[string]TV{}, mayPanic: map[string]bool{}, loopFrameOf: map[*ssa.BasicBlock]*loopFrame{}}
	a.baseFrames = append([]loopFrame{}, vc.loopFrames...)
	if parent != nil {
		a.depth = parent.depth + 1
	}
	a.names = vc.eng.sourceNames(fn)
	return a
}

// runBody evaluates the body of act.fn from the given state; exits are collected in act.exits.
func (vc *VC) runBody(act *Act, st *State) {
	fn := act.fn
	if len(fn.Blocks) == 0 {
		unsupp("function %s has no body", fn)
	}
	act.entry = st.clone()
	order := rpo(fn)
	act.in[fn.Blocks[0]] = []inEdge{{nil, st, 0}}
	headerIndex := vc.eng.loopHeaders(fn)
	for _, b := range order {
		edges := act.in[b]
		var sts []*State
		var fwd []inEdge
		for _, e := range edges {
			if e.pred != nil && isBackEdge(e.pred, b) {
				continue
			}
			fwd = append(fwd, e)
			sts = append(sts, e.st)
		}
		cur := vc.mergeStates(sts)
		if cur.dead {
			// unreachable block: still need env entries? skip; successors see no edge
			continue
		}
		act.curBlock = b
		// phis
		var live []inEdge
		for _, e := range fwd {
			if !e.st.dead && e.st.guard != "false" {
				live = append(live, e)
			}
		}
		var lc *LoopContract
		header := isLoopHeader(b)
		if header {
			lc = vc.loopContract(act, b, headerIndex[b])
		}
		phiVals := map[*ssa.Phi]Val{}
		for _, ins := range b.Instrs {
			phi, ok := ins.(*ssa.Phi)
			if !ok {
				break
			}
			var vals []Val
			var ests []*State
			for _, e := range live {
				for k, p := range b.Preds {
					if p == e.pred {
						vals = append(vals, vc.val(act, phi.Edges[k]))
						ests = append(ests, e.st)
						break
					}
				}
			}
			if len(vals) == 0 {
				unsupp("phi without live edge in %s", fn)
			}
			phiVals[phi] = vc.mergeVals(ests, vals)
		}
		if header {
			cur = vc.cutLoop(act, b, cur, phiVals, lc)
		} else {
			for phi, v := range phiVals {
				act.env[phi] = v
			}
		}
		// loop frames active in this block
		vc.loopFrames = append([]loopFrame{}, act.baseFrames...)
		for _, h := range order {
			if lf, ok := act.loopFrameOf[h]; ok && loopBody(h)[b] {
				vc.loopFrames = append(vc.loopFrames, *lf)
			}
		}
		vc.execBlock(act, b, cur, 0)
	}
	vc.loopFrames = append([]loopFrame{}, act.baseFrames...)
	// back edges: invariant preservation
	for _, b := range order {
		if !isLoopHeader(b) {
			continue
		}
		lc := vc.loopContract(act, b, headerIndex[b])
		for _, e := range act.in[b] {
			if e.pred == nil || !isBackEdge(e.pred, b) || e.st.dead {
				continue
			}
			vc.checkLoopPreserved(act, b, e, lc, headerIndex[b])
		}
	}
}

func (vc *VC) addEdge(act *Act, from, to *ssa.BasicBlock, st *State) {
	act.in[to] = append(act.in[to], inEdge{from, st, len(vc.asserts)})
}

// execBlock executes instructions of b starting at index from.
func (vc *VC) execBlock(act *Act, b *ssa.BasicBlock, st *State, from int) {
	for k := from; k < len(b.Instrs); k++ {
		ins := b.Instrs[k]
		if _, ok := ins.(*ssa.Phi); ok {
			continue
		}
		if st.dead {
			return
		}
		switch i := ins.(type) {
		case *ssa.If:
			c := i2b(vc.val(act, i.Cond).(IntV).t)
			s1 := st.clone()
			s1.guard = vc.def("g", "Bool", and(st.guard, c))
			s2 := st.clone()
			s2.guard = vc.def("g", "Bool", and(st.guard, not(c)))
			vc.loopExitDo(act, b, b.Succs[0], s1)
			vc.loopExitDo(act, b, b.Succs[1], s2)
			vc.addEdge(act, b, b.Succs[0], s1)
			vc.addEdge(act, b, b.Succs[1], s2)
			return
		case *ssa.Jump:
			vc.addEdge(act, b, b.Succs[0], st)
			return
		case *ssa.Return:
			var ret []Val
			for _, r := range i.Results {
				ret = append(ret, vc.val(act, r))
			}
			act.exits = append(act.exits, &Exit{st: st, ret: ret, site: i, desc: vc.srcPos(i.Pos())})
			return
		case *ssa.Panic:
			ps := st.clone()
			vc.runDefers(act, ps)
			act.exits = append(act.exits, &Exit{st: ps, panic: true, site: i, desc: "panic@" + vc.srcPos(i.Pos())})
			return
		case *ssa.RunDefers:
			vc.runDefers(act, st)
		default:
			vc.execInstr(act, st, ins)
		}
	}
}

func (vc *VC) rangeID(r *ssa.Range) string {
	if vc.rangeIDs == nil {
		vc.rangeIDs = map[*ssa.Range]string{}
	}
	if id, ok := vc.rangeIDs[r]; ok {
		return id
	}
	id := fmt.Sprintf("range%d", len(vc.rangeIDs)+1)
	vc.rangeIDs[r] = id
	return id
}

// headerRange: the map iteration driven by the Next instruction in a loop header.
func headerRange(h *ssa.BasicBlock) *ssa.Range {
	for _, ins := range h.Instrs {
		if n, ok := ins.(*ssa.Next); ok && !n.IsString {
			if r, ok := n.Iter.(*ssa.Range); ok {
				return r
			}
		}
	}
	return nil
}

// loopExitDo applies the `exit-do` ghost updates of a loop when control leaves it through the header.
func (vc *VC) loopExitDo(act *Act, b, succ *ssa.BasicBlock, st *State) {
	if act.fc == nil || !isLoopHeader(b) || loopBody(b)[succ] {
		return
	}
	lc := vc.loopContract(act, b, vc.eng.loopHeaders(act.fn)[b])
	if lc == nil {
		return
	}
	for _, d := range lc.ExitDo {
		env := vc.specEnv(act, st, act.entry, "invariant", b)
		tv := env.evalTV(d.Expr)
		st.ghost[d.Name] = vc.def("gh_"+d.Name, "Int", flatten(tv.v)[0])
	}
}

// ---------- loops ----------
func (vc *VC) loopContract(act *Act, h *ssa.BasicBlock, ordinal int) *LoopContract {
	if act.fc == nil {
		return nil
	}
	text := vc.eng.loopHeaderText(act.fn, ordinal)
	find := func(fc *FuncContract) *LoopContract {
		for _, lc := range fc.Loops {
			if lc.Key == fmt.Sprint(ordinal) || (text != "" && normSpace(lc.Key) == normSpace(text)) {
				lc.Used = true
				return lc
			}
		}
		return nil
	}
	if lc := find(act.fc); lc != nil {
		return lc
	}
	// a contract case (funcalt) shared by many functions carries no loop clauses: the loops of a function are
	// annotated once, in its primary contract
	if act.fc.CaseName != "" {
		if prim := vc.eng.contractFor(act.fn); prim != nil && prim != act.fc {
			return find(prim)
		}
	}
	return nil
}

func normSpace(s string) string { return strings.Join(strings.Fields(s), " ") }

type loopFacts struct {
	writesHeap   bool // store through non-local pointer, append/copy, map update
	calls        bool // non-pure call
	allocs       bool
	localsStored map[*ssa.Alloc]bool
	typed        typedWrites
	ghosts       map[string]bool // ghost variables an event or callee in the body may change
	allGhosts    bool
}

// typedWrites: an over-approximation of what a loop body may write, by static object type.
type typedWrites struct {
	all    bool
	why    string
	whole  map[int]bool     // type id -> whole objects of that type may change
	ranges map[int][][2]int // struct type id -> leaf ranges that may change
}

func (tw *typedWrites) addWhole(id int) {
	if tw.whole == nil {
		tw.whole = map[int]bool{}
	}
	tw.whole[id] = true
}
func (tw *typedWrites) addRange(id, lo, hi int) {
	if tw.ranges == nil {
		tw.ranges = map[int][][2]int{}
	}
	tw.ranges[id] = append(tw.ranges[id], [2]int{lo, hi})
}
func (tw *typedWrites) setAll(why string) {
	if !tw.all {
		tw.all, tw.why = true, why
	}
}

// addrTarget classifies the object written through addr: (struct type, leaf range) when the
// address is a field path from a pointer to a whole-object struct, an array object for slice
// elements, otherwise unknown.
func (vc *VC) addrTarget(addr ssa.Value, w int, tw *typedWrites) {
	off := 0
	cur := addr
	anyIdx := false
	for {
		switch a := cur.(type) {
		case *ssa.FieldAddr:
			st := a.X.Type().Underlying().(*types.Pointer).Elem()
			off += fieldOffset(st.Underlying().(*types.Struct), a.Field)
			if vc.eng.wholeObjectType(st) {
				if anyIdx {
					tw.addWhole(vc.tid(st))
				} else {
					tw.addRange(vc.tid(st), off, off+w)
				}
				return
			}
			cur = a.X
			continue
		case *ssa.IndexAddr:
			if sl, ok := a.X.Type().Underlying().(*types.Slice); ok {
				tw.addWhole(vc.eng.arrTid(sl.Elem()))
				return
			}
			// element of an array reached through a pointer: the enclosing object, any index
			anyIdx = true
			cur = a.X
			continue
		case *ssa.Alloc:
			et := a.Type().(*types.Pointer).Elem()
			if vc.eng.wholeObjectType(et) && !anyIdx {
				tw.addRange(vc.tid(et), off, off+w)
				return
			}
			tw.addWhole(vc.tid(et))
			return
		case *ssa.Global:
			tw.addWhole(vc.tid(a.Type().(*types.Pointer).Elem()))
			return
		}
		break
	}
	if pt, ok := cur.Type().Underlying().(*types.Pointer); ok && vc.eng.wholeObjectType(pt.Elem()) {
		if anyIdx {
			tw.addWhole(vc.tid(pt.Elem()))
		} else {
			tw.addRange(vc.tid(pt.Elem()), off, off+w)
		}
		return
	}
	tw.setAll("store through a pointer of unknown provenance")
}

// contractWrites maps a callee frame to typed writes (evaluated on dummy arguments).
func (vc *VC) contractWrites(act *Act, st *State, fc *FuncContract, names []string, ptypes []types.Type, tw *typedWrites) {
	if fc.Pure && len(fc.Modifies) == 0 {
		return
	}
	if len(fc.Modifies) == 0 {
		tw.setAll("callee " + fc.Key + " has no modifies clause")
		return
	}
	scratch := st.clone()
	env := &SpecEnv{vc: vc, st: scratch, old: scratch, vars: map[string]TV{}, pkg: vc.eng.pkgOfContract(fc), allocBase: scratch.top, kind: "callsite"}
	for k, n := range names {
		if k < len(ptypes) {
			env.vars[n] = TV{vc.freshVal(scratch, "dummy", ptypes[k]), ptypes[k]}
		}
	}
	for k := range ptypes {
		env.vars[fmt.Sprintf("arg%d", k)] = TV{vc.freshVal(scratch, "dummy", ptypes[k]), ptypes[k]}
	}
	func() {
		defer func() {
			if r := recover(); r != nil {
				if _, ok := r.(specError); ok {
					tw.setAll("frame of " + fc.Key + " could not be typed")
					return
				}
				panic(r)
			}
		}()
		for _, l := range fc.Lets {
			env.vars[l.Name] = env.evalTV(l.Expr)
		}
		items, _, everything := vc.resolveModifies(env, fc.Modifies)
		if everything {
			tw.setAll("callee " + fc.Key + " modifies everything")
			return
		}
		for _, it := range items {
			switch {
			case it.kind == "region" || it.kind == "everything":
				tw.setAll("callee " + fc.Key + " modifies " + it.text)
			case it.otype == nil && it.etype != nil:
				// *p with p a pointer to E: objects allocated as E, and E-typed runs inside known structs
				tw.addWhole(vc.tid(it.etype))
				w := width(it.etype)
				for id, t := range vc.eng.typeByID {
					if !vc.eng.wholeObjectType(t) {
						continue
					}
					var offs []int
					func() {
						defer func() { recover() }()
						offsetsOf(t, it.etype, 0, &offs)
					}()
					for _, o := range offs {
						tw.addRange(id, o, o+w)
					}
				}
			case it.otype == nil:
				tw.setAll("callee " + fc.Key + " modifies " + it.text + " (untyped)")
			case it.kind == "range" && it.fhi > 0:
				tw.addRange(vc.tid(it.otype), it.flo, it.fhi)
			case it.otid > 0:
				tw.addWhole(it.otid)
			default:
				tw.addWhole(vc.tid(it.otype))
			}
		}
	}()
}

func (vc *VC) loopEffects(act *Act, body map[*ssa.BasicBlock]bool) loopFacts {
	lf := loopFacts{localsStored: map[*ssa.Alloc]bool{}, ghosts: map[string]bool{}}
	noteEvents := func(kind, key string) {
		for _, ev := range vc.eng.eventsFor(kind, key) {
			for _, d := range ev.Do {
				lf.ghosts[d.Name] = true
			}
		}
	}
	noteContract := func(fc *FuncContract) {
		for _, m := range fc.Modifies {
			for _, it := range m.Items {
				if it.Kind == "ghost" {
					lf.ghosts[it.Name] = true
				}
			}
		}
	}
	var rootAlloc func(v ssa.Value) *ssa.Alloc
	rootAlloc = func(v ssa.Value) *ssa.Alloc {
		switch x := v.(type) {
		case *ssa.Alloc:
			return x
		case *ssa.FieldAddr:
			return rootAlloc(x.X)
		case *ssa.IndexAddr:
			if _, ok := x.X.Type().Underlying().(*types.Pointer); ok {
				return rootAlloc(x.X)
			}
		}
		return nil
	}
	var scan func(fn *ssa.Function, blocks map[*ssa.BasicBlock]bool, depth int)
	scan = func(fn *ssa.Function, blocks map[*ssa.BasicBlock]bool, depth int) {
		for _, b := range fn.Blocks {
			if blocks != nil && !blocks[b] {
				continue
			}
			for _, ins := range b.Instrs {
				for _, sh := range vc.eng.instrShape(ins) {
					parts := strings.SplitN(sh, " ", 2)
					if len(parts) == 2 {
						k := parts[1]
						if parts[0] == "call" {
							if j := strings.Index(k, "."); j >= 0 {
								k = k[j+1:]
							}
						}
						noteEvents(parts[0], k)
					}
				}
				switch i := ins.(type) {
				case *ssa.Go:
					noteEvents("go", "")
				case *ssa.Send:
					noteEvents("send", "")
				case *ssa.UnOp:
					if i.Op == token.ARROW {
						noteEvents("recv", "")
					}
				case *ssa.Lookup:
					if _, isMap := i.X.Type().Underlying().(*types.Map); isMap {
						noteEvents("mapread", vc.mapWhat(i.X))
					}
				case *ssa.MapUpdate:
					noteEvents("mapwrite", vc.mapWhat(i.Map))
				}
				if ci, ok := ins.(*ssa.Call); ok {
					if bi, isB := ci.Call.Value.(*ssa.Builtin); isB {
						switch bi.Name() {
						case "close":
							noteEvents("close", "")
						case "delete":
							noteEvents("mapdelete", vc.mapWhat(ci.Call.Args[0]))
						}
					} else if callee := ci.Call.StaticCallee(); callee != nil {
						if fc := vc.eng.contractFor(callee); fc != nil {
							noteContract(fc)
						} else if vc.eng.externFor(callee) == nil && vc.eng.ifaceContractOfImpl(callee) == nil && len(vc.eng.eventsFor("call", vc.eng.eventKeyOf(callee))) == 0 {
							for _, g := range sortedSet(vc.eng.reachableGhosts(callee)) {
								lf.ghosts[g] = true
							}
						}
					} else if ci.Call.IsInvoke() {
						if ic := vc.eng.ifaceContract(ci.Call.Value.Type(), ci.Call.Method.Name()); ic != nil {
							noteContract(ic)
						}
					}
				}
				switch i := ins.(type) {
				case *ssa.Store:
					if a := rootAlloc(i.Addr); a != nil && !vc.eng.escapes(a) {
						lf.localsStored[a] = true
					} else {
						lf.writesHeap = true
						if _, isFV := i.Addr.(*ssa.FreeVar); isFV {
							lf.typed.addWhole(vc.tid(i.Addr.Type().(*types.Pointer).Elem()))
						} else {
							vc.addrTarget(i.Addr, width(i.Val.Type()), &lf.typed)
						}
					}
				case *ssa.MapUpdate:
					lf.writesHeap = true
					lf.typed.addWhole(vc.eng.mapTid(i.Map.Type()))
				case *ssa.MakeClosure:
					lf.allocs = true
					if cf, ok := i.Fn.(*ssa.Function); ok && depth < 4 {
						scan(cf, nil, depth+1)
					}
				case *ssa.Alloc, *ssa.MakeSlice, *ssa.MakeMap, *ssa.MakeChan, *ssa.MakeInterface:
					lf.allocs = true
				case *ssa.Go:
					lf.calls = true
					var spawned *ssa.Function
					if mc, ok := i.Call.Value.(*ssa.MakeClosure); ok {
						spawned, _ = mc.Fn.(*ssa.Function)
					} else if f := i.Call.StaticCallee(); f != nil {
						spawned = f
					}
					if spawned != nil && len(spawned.Blocks) > 0 && depth < 4 {
						scan(spawned, nil, depth+1) // its effects may land at any later point: part of the loop's write set
					} else {
						lf.typed.setAll("go statement with unknown body inside loop")
					}
				case *ssa.Defer:
					lf.calls = true
					lf.typed.setAll("defer inside loop")
				case *ssa.Send:
					lf.calls = true
				case *ssa.Call:
					if bi, ok := i.Call.Value.(*ssa.Builtin); ok {
						switch bi.Name() {
						case "append", "copy":
							lf.writesHeap = true
							lf.allocs = true
							if sl, ok := i.Call.Args[0].Type().Underlying().(*types.Slice); ok {
								lf.typed.addWhole(vc.eng.arrTid(sl.Elem()))
							}
						case "delete":
							lf.writesHeap = true
							lf.typed.addWhole(vc.eng.mapTid(i.Call.Args[0].Type()))
						case "close":
							lf.writesHeap = true
						}
						continue
					}
					lf.allocs = true
					if i.Call.IsInvoke() {
						if ic := vc.eng.ifaceContract(i.Call.Value.Type(), i.Call.Method.Name()); ic != nil {
							if ic.Pure && len(ic.Modifies) == 0 {
								continue
							}
							lf.calls = true
							sig := i.Call.Signature()
							names := ic.ParamNames
							pts := []types.Type{i.Call.Value.Type()}
							for k := 0; k < sig.Params().Len(); k++ {
								pts = append(pts, sig.Params().At(k).Type())
							}
							if len(names) == 0 {
								names = []string{"recv"}
							}
							vc.contractWrites(act, act.entry, ic, names, pts, &lf.typed)
							continue
						}
						lf.calls = true
						lf.typed.setAll("invoke without contract: " + i.Call.Method.Name())
						continue
					}
					callee := i.Call.StaticCallee()
					if callee == nil {
						if mc, ok := i.Call.Value.(*ssa.MakeClosure); ok {
							_ = mc // body scanned at the MakeClosure
							continue
						}
						if fc, ok := vc.eng.contracts.Externs["fnfield "+vc.dynName(i.Call.Value)]; ok {
							lf.calls = true
							var pts []types.Type
							for _, a := range i.Call.Args {
								pts = append(pts, a.Type())
							}
							vc.contractWrites(act, act.entry, fc, fc.ParamNames, pts, &lf.typed)
							continue
						}
						lf.calls = true
						lf.typed.setAll("call through a function value")
						continue
					}
					var fc *FuncContract
					var names []string
					if c := vc.eng.contractFor(callee); c != nil {
						fc = c
						for _, p := range callee.Params {
							names = append(names, p.Name())
						}
						if c.Inline && len(callee.Blocks) > 0 && depth < 4 {
							scan(callee, nil, depth+1)
							continue
						}
					} else if c := vc.eng.ifaceContractOfImpl(callee); c != nil {
						fc, names = c, c.ParamNames
					} else if c := vc.eng.externFor(callee); c != nil {
						fc, names = c, c.ParamNames
						if c.CallbackLoop {
							lf.calls = true
							lf.typed.setAll("callback loop inside loop")
							continue
						}
					}
					if fc != nil {
						if fc.Pure && len(fc.Modifies) == 0 {
							continue
						}
						lf.calls = true
						var pts []types.Type
						if len(callee.Params) > 0 {
							pts = paramTypes(callee)
						} else {
							for _, a := range i.Call.Args {
								pts = append(pts, a.Type())
							}
						}
						vc.contractWrites(act, act.entry, fc, names, pts, &lf.typed)
						continue
					}
					if vc.eng.autoPure(callee) {
						continue
					}
					switch callee.String() {
					case "errors.New", "fmt.Errorf", "fmt.Sprintf", "fmt.Sprint", "(*sync.RWMutex).RLock", "(*sync.RWMutex).RUnlock", "(*sync.RWMutex).Lock", "(*sync.RWMutex).Unlock", "(*sync.Mutex).Lock", "(*sync.Mutex).Unlock":
						continue
					}
					lf.calls = true
					lf.typed.setAll("callee without contract: " + callee.String())
				}
			}
		}
	}
	scan(act.fn, body, 0)
	return lf
}

// cutLoop: assert invariants on entry, havoc what the body may change, assume invariants.
func (vc *VC) cutLoop(act *Act, h *ssa.BasicBlock, st *State, phiVals map[*ssa.Phi]Val, lc *LoopContract) *State {
	ordinal := vc.eng.loopHeaders(act.fn)[h]
	// 1. invariant on entry (phis bound to their entry values)
	if lc != nil {
		for phi, v := range phiVals {
			act.env[phi] = v
		}
		for _, d := range lc.EntryDo {
			env := vc.specEnv(act, st, act.entry, "invariant", h)
			tv := env.evalTV(d.Expr)
			st.ghost[d.Name] = vc.def("gh_"+d.Name, "Int", flatten(tv.v)[0])
		}
		for n, inv := range lc.Invariants {
			if os.Getenv("GVC_DEBUG") != "" {
				fmt.Fprintf(os.Stderr, "cutLoop %s ordinal %d header %s key %s inv %s\n", act.fn, ordinal, h, lc.Key, inv.Text)
			}
			f := vc.evalBool(vc.specEnv(act, st, act.entry, "invariant", h), inv)
			vc.oblige(st, &Obligation{Name: fmt.Sprintf("%s#loop%d#inv-entry#%s", vc.eng.shortName(act.fn), ordinal, clauseName(inv, n)), Kind: "loop-invariant-entry", Clause: inv.Text, Tags: vc.clauseTags(act.fc, inv), Src: fmt.Sprintf("%s:%d", shortFile(inv.File), inv.Line)}, f)
		}
	}
	if lc != nil {
		for n, a := range lc.EntryAsserts {
			f := vc.evalBool(vc.specEnv(act, st, act.entry, "invariant", h), a)
			vc.oblige(st, &Obligation{Name: fmt.Sprintf("%s#loop%d#entry-assert#%s", vc.eng.shortName(act.fn), ordinal, clauseName(a, n)), Kind: "loop-entry-assertion", Clause: a.Text, Tags: vc.clauseTags(act.fc, a), Src: fmt.Sprintf("%s:%d", shortFile(a.File), a.Line)}, f)
		}
	}
	body := loopBody(h)
	lf := vc.loopEffects(act, body)
	// ghost updates attached to loops nested in this one happen inside its body
	if act.fc != nil {
		for h2, ord2 := range vc.eng.loopHeaders(act.fn) {
			if h2 == h || !body[h2] {
				continue
			}
			if lc2 := vc.loopContract(act, h2, ord2); lc2 != nil {
				for _, d := range lc2.ExitDo {
					lf.ghosts[d.Name] = true
				}
				for _, d := range lc2.EntryDo {
					lf.ghosts[d.Name] = true
				}
			}
		}
	}
	ns := st.clone()
	if act.loopCutPos == nil {
		act.loopCutPos = map[*ssa.BasicBlock]int{}
	}
	act.loopCutPos[h] = len(vc.asserts)
	// 2. havoc
	for _, ins := range h.Instrs { // in instruction order (not map order): the VC text must be reproducible
		phi, ok := ins.(*ssa.Phi)
		if !ok {
			break
		}
		if _, ok := phiVals[phi]; !ok {
			continue
		}
		v := vc.freshVal(ns, "lp_"+sanitize(phi.Comment), phi.Type())
		act.env[phi] = v
		if phi.Comment == "rangeindex" {
			vc.assume(ns, fmt.Sprintf("(>= %s (- 1))", v.(IntV).t))
		}
	}
	if lc != nil && len(lc.Modifies) > 0 {
		items, ghosts, everything := vc.resolveModifies(vc.specEnv(act, st, act.entry, "invariant", h), lc.Modifies)
		if everything {
			vc.havocLoopAll(act, ns, st, lf)
		} else {
			vc.callFrameCheck(act, st, items, fmt.Sprintf("loop%d", ordinal), h.Instrs[0])
			act.loopFrameOf[h] = &loopFrame{items: items, top: st.top, name: lc.Key}
			vc.havocItems(ns, items, ghosts)
			vc.havocLocals(ns, lf, act)
		}
	} else if (lf.writesHeap || lf.calls) && !lf.typed.all {
		vc.havocTyped(act, ns, st, lf)
		vc.havocLocals(ns, lf, act) // locals the body stores to are written whatever their type
		vc.havocLoopGhosts(ns, lf)
	} else if lf.writesHeap || lf.calls {
		vc.used["loop havoc (everything): "+lf.typed.why] = true
		vc.havocLoopAll(act, ns, st, lf)
		vc.havocLoopGhosts(ns, lf)
	} else {
		vc.havocLoopGhosts(ns, lf)
		vc.havocLocals(ns, lf, act)
		if lf.allocs {
			old := ns.top
			ns.top = vc.fresh("top", "Int")
			vc.assume(ns, fmt.Sprintf("(>= %s %s)", ns.top, old))
		}
	}
	if r := headerRange(h); r != nil {
		ns.visited[vc.rangeID(r)] = vc.fresh("vis", "(Array Int Bool)")
	}
	// 3. assume invariants
	if lc != nil {
		for _, inv := range lc.Invariants {
			f := vc.evalBool(vc.specEnv(act, ns, act.entry, "invariant", h), inv)
			vc.assume(ns, f)
		}
	}
	return ns
}

// havocLoopGhosts: only the ghost variables some event or callee frame in the body can change.
func (vc *VC) havocLoopGhosts(ns *State, lf loopFacts) {
	if lf.allGhosts {
		for _, g := range vc.eng.contracts.Ghosts {
			ns.ghost[g] = vc.fresh("gh_"+g, "Int")
		}
		return
	}
	var gs []string
	for g := range lf.ghosts {
		gs = append(gs, g)
	}
	sort.Strings(gs)
	for _, g := range gs {
		ns.ghost[g] = vc.fresh("gh_"+g, "Int")
	}
}

func (vc *VC) havocLocals(ns *State, lf loopFacts, act *Act) {
	var allocs []*ssa.Alloc
	for a := range lf.localsStored {
		allocs = append(allocs, a)
	}
	sort.Slice(allocs, func(i, j int) bool { return allocs[i].Pos() < allocs[j].Pos() })
	for _, a := range allocs {
		p, ok := act.env[a].(PtrV)
		if !ok {
			continue
		}
		vc.havocItems(ns, []frameItem{{kind: "obj", ref: p.ref}}, nil)
		// reloaded values are well-formed (assumed at load)
	}
}

// havocTyped: only objects of the types (and, for structs, the leaf ranges) the loop body may
// write are havocked; everything else keeps its value (typed memory).
func (vc *VC) havocTyped(act *Act, ns, before *State, lf loopFacts) {
	nmi, nmr := vc.fresh("MI", memSort), vc.fresh("MR", memSort)
	tw := lf.typed
	var ids []int
	seen := map[int]bool{}
	for id := range tw.whole {
		if !seen[id] {
			seen[id] = true
			ids = append(ids, id)
		}
	}
	for id := range tw.ranges {
		if !seen[id] {
			seen[id] = true
			ids = append(ids, id)
		}
	}
	sort.Ints(ids)
	var conds []string
	for _, id := range ids {
		conds = append(conds, fmt.Sprintf("(not (= (typ r) %d))", id))
	}
	other := and(conds...)
	for _, pr := range [][2]string{{nmi, before.mi}, {nmr, before.mr}} {
		vc.assume(ns, fmt.Sprintf("(forall ((r Int)) (! (=> %s (= (select %s r) (select %s r))) :pattern ((select %s r))))", other, pr[0], pr[1], pr[0]))
	}
	for _, id := range ids {
		if tw.whole[id] {
			continue
		}
		var outs []string
		for _, rg := range tw.ranges[id] {
			outs = append(outs, fmt.Sprintf("(or (< j %d) (>= j %d))", rg[0], rg[1]))
		}
		for _, pr := range [][2]string{{nmi, before.mi}, {nmr, before.mr}} {
			vc.assume(ns, fmt.Sprintf("(forall ((r Int) (j Int)) (! (=> (and (= (typ r) %d) %s) (= (select (select %s r) j) (select (select %s r) j))) :pattern ((select (select %s r) j))))", id, and(outs...), pr[0], pr[1], pr[0]))
		}
	}
	// ground instances of the two axioms above for every object already known by reference
	// (E-matching does not reliably see select terms produced by array reasoning)
	known := map[string]bool{}
	var refs []string
	for a := act; a != nil; a = a.parent {
		var level []string
		for _, v := range a.env {
			var r string
			switch x := v.(type) {
			case PtrV:
				r = x.ref
			case MapV:
				r = x.ref
			case SliceV:
				r = x.ref
			}
			if r != "" && r != "0" && isAtom(r) && !known[r] {
				known[r] = true
				level = append(level, r)
			}
		}
		sort.Strings(level) // (the environment is a map: fix the order)
		refs = append(refs, level...)
	}
	for _, r := range vc.seenRefs {
		if !known[r] {
			known[r] = true
			refs = append(refs, r)
		}
	}
	if len(refs) > 120 {
		refs = refs[len(refs)-120:]
	}
	for _, r := range refs {
		otherR := strings.ReplaceAll(other, "(typ r)", "(typ "+r+")")
		for _, pr := range [][2]string{{nmi, before.mi}, {nmr, before.mr}} {
			vc.assume(ns, implies(otherR, fmt.Sprintf("(= (select %s %s) (select %s %s))", pr[0], r, pr[1], r)))
		}
		for _, id := range ids {
			if tw.whole[id] {
				continue
			}
			if t, known := vc.seenRefTid[r]; known && t != id {
				continue
			}
			for _, pr := range [][2]string{{nmi, before.mi}, {nmr, before.mr}} {
				row := fmt.Sprintf("(select %s %s)", pr[1], r)
				for _, rg := range tw.ranges[id] {
					for j := rg[0]; j < rg[1]; j++ {
						row = fmt.Sprintf("(store %s %d (select (select %s %s) %d))", row, j, pr[0], r, j)
					}
				}
				vc.assume(ns, implies(fmt.Sprintf("(= (typ %s) %d)", r, id), fmt.Sprintf("(= (select %s %s) %s)", pr[0], r, row)))
			}
		}
	}
	// every write in the body is frame-checked: pre-existing objects outside the function's frame
	// keep their rows whatever their type
	if vc.frameOn {
		cond := "(and (< r alloc0)"
		usable := true
		for _, it := range vc.frame {
			switch it.kind {
			case "everything", "region":
				usable = false
			case "obj", "range":
				cond += fmt.Sprintf(" (not (= r %s))", it.ref)
			}
		}
		cond += ")"
		if usable {
			for _, pr := range [][2]string{{nmi, before.mi}, {nmr, before.mr}} {
				vc.assume(ns, fmt.Sprintf("(forall ((r Int)) (! (=> %s (= (select %s r) (select %s r))) :pattern ((select %s r))))", cond, pr[0], pr[1], pr[0]))
				for _, r := range refs {
					vc.assume(ns, implies(strings.ReplaceAll(cond, " r", " "+r), fmt.Sprintf("(= (select %s %s) (select %s %s))", pr[0], r, pr[1], r)))
				}
			}
		}
	}
	// non-escaping locals the body does not store to keep their rows even when their type is written
	stored := map[string]bool{}
	for a := range lf.localsStored {
		if p, ok := act.env[a].(PtrV); ok {
			stored[p.ref] = true
		}
	}
	var keys []string
	for r := range ns.kept {
		if !stored[r] {
			keys = append(keys, r)
		}
	}
	sort.Strings(keys)
	for _, r := range keys {
		vc.assume(ns, fmt.Sprintf("(= (select %s %s) (select %s %s))", nmi, r, before.mi, r))
		vc.assume(ns, fmt.Sprintf("(= (select %s %s) (select %s %s))", nmr, r, before.mr, r))
	}
	ns.mi, ns.mr = nmi, nmr
	old := ns.top
	ns.top = vc.fresh("top", "Int")
	vc.assume(ns, fmt.Sprintf("(>= %s %s)", ns.top, old))
	vc.used["loop havoc by written object types (typed memory)"] = true
}

func (vc *VC) havocLoopAll(act *Act, ns, before *State, lf loopFacts) {
	// kept locals that the body does not store to survive
	kept := ns.kept
	ns.kept = map[string]bool{}
	for r := range kept {
		ns.kept[r] = true
	}
	for a := range lf.localsStored {
		if p, ok := act.env[a].(PtrV); ok {
			delete(ns.kept, p.ref)
		}
	}
	vc.havocAll(ns, "loop")
	ns.kept = kept
	// frame-based preservation: every write in the body is frame-checked, so pre-existing
	// objects outside the declared frame are unchanged.
	if vc.frameOn {
		cond := "(and (< r alloc0)"
		for _, it := range vc.frame {
			switch it.kind {
			case "everything", "region":
				return
			case "obj", "range":
				cond += fmt.Sprintf(" (not (= r %s))", it.ref)
			}
		}
		cond += ")"
		vc.assume(ns, fmt.Sprintf("(forall ((r Int)) (! (=> %s (= (select %s r) (select %s r))) :pattern ((select %s r))))", cond, ns.mi, before.mi, ns.mi))
		vc.assume(ns, fmt.Sprintf("(forall ((r Int)) (! (=> %s (= (select %s r) (select %s r))) :pattern ((select %s r))))", cond, ns.mr, before.mr, ns.mr))
	}
}

func (vc *VC) checkLoopPreserved(act *Act, h *ssa.BasicBlock, e inEdge, lc *LoopContract, ordinal int) {
	if lc == nil {
		return
	}
	// bind phis to the values flowing along the back edge
	saved := map[*ssa.Phi]Val{}
	for _, ins := range h.Instrs {
		phi, ok := ins.(*ssa.Phi)
		if !ok {
			break
		}
		for k, p := range h.Preds {
			if p == e.pred {
				saved[phi] = act.env[phi]
				act.env[phi] = vc.val(act, phi.Edges[k])
			}
		}
	}
	// back edges are checked after the whole body has been executed: what was asserted between taking the edge and
	// now describes later program points and is left out of these queries
	evalStart := len(vc.asserts)
	for n, inv := range lc.Invariants {
		f := vc.evalBool(vc.specEnv(act, e.st, act.entry, "invariant", h), inv)
		vc.oblige(e.st, &Obligation{Name: fmt.Sprintf("%s#loop%d#inv-preserved#%s", vc.eng.shortName(act.fn), ordinal, clauseName(inv, n)), Kind: "loop-invariant-preserved", Clause: inv.Text, Tags: vc.clauseTags(act.fc, inv), Src: fmt.Sprintf("%s:%d", shortFile(inv.File), inv.Line), localFrom: act.loopCutPos[h], skipFrom: e.pos, skipTo: evalStart}, f)
	}
	for phi, v := range saved {
		act.env[phi] = v
	}
}

func clauseName(c *Clause, n int) string {
	if c.Label != "" {
		return c.Label
	}
	return fmt.Sprint(n)
}
func shortFile(f string) string {
	if i := strings.Index(f, "/repo/"); i >= 0 {
		return f[i+6:]
	}
	if i := strings.Index(f, "/verif/"); i >= 0 {
		return f[i+7:]
	}
	return f
}
func sanitize(s string) string {
	var b strings.Builder
	for _, c := range s {
		if c >= 'a' && c <= 'z' || c >= 'A' && c <= 'Z' || c >= '0' && c <= '9' {
			b.WriteRune(c)
		} else {
			b.WriteByte('_')
		}
	}
	if b.Len() == 0 {
		return "v"
	}
	return b.String()
}

func (vc *VC) clauseTags(fc *FuncContract, c *Clause) []string {
	if len(c.Tags) > 0 {
		return c.Tags
	}
	if fc != nil {
		return fc.Tags
	}
	return nil
}

// ---------- defers ----------
func (vc *VC) runDefers(act *Act, st *State) {
	for k := len(act.defers) - 1; k >= 0; k-- {
		d := act.defers[k]
		if d.flag == "false" {
			continue
		}
		on := st.clone()
		on.guard = vc.def("g", "Bool", and(st.guard, d.flag))
		off := st.clone()
		off.guard = vc.def("g", "Bool", and(st.guard, not(d.flag)))
		vc.callValue(act, on, &d.instr.Call, d.fnVal, d.args, d.instr, true)
		m := vc.mergeStates([]*State{on, off})
		*st = *m
	}
}

// ---------- values ----------
func (vc *VC) val(act *Act, x ssa.Value) Val {
	switch c := x.(type) {
	case *ssa.Const:
		return vc.constVal(c)
	case *ssa.Global:
		return PtrV{vc.eng.globalRef(vc, c), "0"}
	case *ssa.Function:
		return IntV{fmt.Sprint(vc.eng.funcID(c))}
	case *ssa.Builtin:
		return IntV{"0"}
	}
	for a := act; a != nil; a = a.parent {
		if r, ok := a.env[x]; ok {
			return r
		}
	}
	unsupp("no value for %s = %s in %s", x.Name(), x, act.fn)
	return nil
}

func (vc *VC) constVal(c *ssa.Const) Val {
	t := c.Type()
	if c.Value == nil {
		return zeroVal(t)
	}
	switch u := t.Underlying().(type) {
	case *types.Basic:
		switch {
		case u.Info()&types.IsInteger != 0:
			if i, ok := constant.Int64Val(constant.ToInt(c.Value)); ok {
				return IntV{num(i)}
			}
			return IntV{c.Value.ExactString()}
		case u.Info()&types.IsBoolean != 0:
			if constant.BoolVal(c.Value) {
				return IntV{"1"}
			}
			return IntV{"0"}
		case u.Info()&types.IsString != 0:
			return IntV{vc.strLit(constant.StringVal(c.Value))}
		case u.Info()&types.IsFloat != 0:
			f, _ := constant.Float64Val(c.Value)
			if f == float64(int64(f)) {
				return IntV{num(int64(f))}
			}
			return IntV{fmt.Sprint(vc.eng.strID("float:" + c.Value.ExactString()))}
		}
	}
	unsupp("const %s", c)
	return nil
}

// ---------- instructions ----------
func (vc *VC) execInstr(act *Act, st *State, ins ssa.Instruction) {
	switch i := ins.(type) {
	case *ssa.DebugRef:
	case *ssa.Alloc:
		p := vc.allocObj(st, i.Type().(*types.Pointer).Elem(), true)
		act.env[i] = p
		if !vc.eng.escapes(i) {
			st.kept[p.ref] = true
		}
	case *ssa.MakeClosure:
		cv := ClosureV{fn: i.Fn.(*ssa.Function), id: fmt.Sprint(vc.eng.funcID(i.Fn.(*ssa.Function)))}
		for _, b := range i.Bindings {
			cv.bind = append(cv.bind, vc.val(act, b))
		}
		act.env[i] = cv
	case *ssa.Defer:
		if vc.eng.inLoop(i.Block()) {
			unsupp("defer inside a loop in %s", act.fn)
		}
		d := &deferRec{instr: i, flag: st.guard}
		if _, ok := i.Call.Value.(*ssa.Builtin); !ok && !i.Call.IsInvoke() {
			d.fnVal = vc.val(act, i.Call.Value)
		} else if i.Call.IsInvoke() {
			d.fnVal = vc.val(act, i.Call.Value)
		}
		for _, a := range i.Call.Args {
			d.args = append(d.args, vc.val(act, a))
		}
		act.defers = append(act.defers, d)
	case *ssa.Go:
		vc.fireEvent(act, st, "go", "", nil, nil, i)
		vc.used["go statement: spawned body verified separately; effects not interleaved"] = true
	case *ssa.FieldAddr:
		p := vc.val(act, i.X).(PtrV)
		stt := i.X.Type().Underlying().(*types.Pointer).Elem().Underlying().(*types.Struct)
		vc.nilCheck(act, st, p, i.Pos(), "fieldaddr")
		vc.noteImmRef(i.X.Type().Underlying().(*types.Pointer).Elem(), fieldOffset(stt, i.Field), p.ref)
		act.env[i] = PtrV{p.ref, add(p.idx, fieldOffset(stt, i.Field))}
	case *ssa.Field:
		sv := vc.val(act, i.X).(StructV)
		act.env[i] = sv.f[i.Field]
	case *ssa.IndexAddr:
		idx := vc.val(act, i.Index).(IntV).t
		switch x := vc.val(act, i.X).(type) {
		case SliceV:
			w := width(i.X.Type().Underlying().(*types.Slice).Elem())
			vc.safety(act, st, "index", fmt.Sprintf("(and (>= %s 0) (< %s %s))", idx, idx, x.ln), i.Pos())
			act.env[i] = PtrV{x.ref, vc.def("ix", "Int", vc.elemIdx(x.off, idx, w))}
		case PtrV:
			arr := i.X.Type().Underlying().(*types.Pointer).Elem().Underlying().(*types.Array)
			w := width(arr.Elem())
			vc.safety(act, st, "index", fmt.Sprintf("(and (>= %s 0) (< %s %d))", idx, idx, arr.Len()), i.Pos())
			act.env[i] = PtrV{x.ref, vc.def("ix", "Int", fmt.Sprintf("(+ %s (* %s %d))", x.idx, idx, w))}
		default:
			unsupp("indexaddr on %T", x)
		}
	case *ssa.Index:
		idx := vc.val(act, i.Index).(IntV).t
		switch x := vc.val(act, i.X).(type) {
		case StructV: // array value
			if n, err := parseInt(idx); err == nil && int(n) < len(x.f) {
				act.env[i] = x.f[n]
			} else {
				var out Val = x.f[len(x.f)-1]
				for k := len(x.f) - 2; k >= 0; k-- {
					out = iteVal(eq(idx, fmt.Sprint(k)), x.f[k], out)
				}
				act.env[i] = out
			}
		case IntV: // string
			vc.safety(act, st, "index", fmt.Sprintf("(and (>= %s 0) (< %s %s))", idx, idx, vc.strLen(st, x.t)), i.Pos())
			b := vc.def("sb", "Int", fmt.Sprintf("(strbyte %s %s)", x.t, idx))
			vc.assume(st, fmt.Sprintf("(and (>= %s 0) (<= %s 255))", b, b))
			act.env[i] = IntV{b}
		default:
			unsupp("index on %T", x)
		}
	case *ssa.UnOp:
		vc.unop(act, st, i)
	case *ssa.Store:
		p := vc.val(act, i.Addr).(PtrV)
		vc.nilCheck(act, st, p, i.Pos(), "store")
		vc.fieldStoreHook(act, st, i, p)
		vc.store(st, p, i.Val.Type(), vc.val(act, i.Val), vc.storeWhat(i.Addr), i.Pos())
	case *ssa.BinOp:
		act.env[i] = vc.binop(act, st, i)
	case *ssa.TypeAssert:
		vc.typeAssert(act, st, i)
	case *ssa.Extract:
		act.env[i] = vc.val(act, i.Tuple).(TupleV).f[i.Index]
	case *ssa.MakeInterface:
		act.env[i] = vc.makeIface(st, vc.val(act, i.X), i.X.Type())
	case *ssa.ChangeType:
		act.env[i] = vc.val(act, i.X)
	case *ssa.ChangeInterface:
		act.env[i] = vc.val(act, i.X)
	case *ssa.Convert:
		act.env[i] = vc.convert(act, st, i)
	case *ssa.SliceToArrayPointer:
		unsupp("SliceToArrayPointer")
	case *ssa.MultiConvert:
		unsupp("MultiConvert")
	case *ssa.Slice:
		vc.sliceOp(act, st, i)
	case *ssa.MakeSlice:
		el := i.Type().Underlying().(*types.Slice).Elem()
		ref := vc.allocArray(st, el)
		ln := vc.val(act, i.Len).(IntV).t
		cp := vc.val(act, i.Cap).(IntV).t
		vc.safety(act, st, "makeslice", fmt.Sprintf("(and (<= 0 %s) (<= %s %s))", ln, ln, cp), i.Pos())
		// zeroed contents
		zi := vc.fresh("zrow", "(Array Int Int)")
		vc.assume(st, fmt.Sprintf("(forall ((j Int)) (! (= (select %s j) 0) :pattern ((select %s j))))", zi, zi))
		st.mi = vc.storeRow("MI", st.mi, ref, zi)
		st.mr = vc.storeRow("MR", st.mr, ref, zi)
		act.env[i] = SliceV{ref, "0", ln, cp}
	case *ssa.MakeMap:
		p := vc.allocMapObj(st, i.Type())
		zi := vc.fresh("zrow", "(Array Int Int)")
		vc.assume(st, fmt.Sprintf("(forall ((j Int)) (! (= (select %s j) 0) :pattern ((select %s j))))", zi, zi))
		st.mi = vc.storeRow("MI", st.mi, p.ref, zi)
		st.mr = vc.storeRow("MR", st.mr, p.ref, zi)
		act.env[i] = MapV{p.ref}
	case *ssa.MakeChan:
		p := vc.allocObj(st, i.Type().Underlying(), true)
		act.env[i] = IntV{p.ref}
	case *ssa.Lookup:
		vc.lookup(act, st, i)
	case *ssa.MapUpdate:
		vc.mapUpdate(act, st, i)
	case *ssa.Range:
		// iterator: remember the collection; no key has been delivered yet
		act.env[i] = TupleV{[]Val{vc.val(act, i.X)}}
		if _, isMap := i.X.Type().Underlying().(*types.Map); isMap {
			st.visited[vc.rangeID(i)] = "((as const (Array Int Bool)) false)"
		}
	case *ssa.Next:
		vc.next(act, st, i)
	case *ssa.Select:
		unsupp("select statement")
	case *ssa.Send:
		vc.fireEvent(act, st, "send", "", nil, nil, i)
	case *ssa.Call:
		vc.callInstr(act, st, i)
	default:
		unsupp("instruction %T: %s", ins, ins)
	}
}

func plusT(a, b string) string {
	if b == "0" {
		return a
	}
	if a == "0" {
		return b
	}
	x, e1 := parseInt(a)
	y, e2 := parseInt(b)
	if e1 == nil && e2 == nil {
		return num(x + y)
	}
	return fmt.Sprintf("(+ %s %s)", a, b)
}
func minusT(a, b string) string {
	if b == "0" {
		return a
	}
	x, e1 := parseInt(a)
	y, e2 := parseInt(b)
	if e1 == nil && e2 == nil {
		return num(x - y)
	}
	return fmt.Sprintf("(- %s %s)", a, b)
}

func parseInt(s string) (int64, error) {
	var n int64
	_, err := fmt.Sscanf(s, "%d", &n)
	if err != nil || fmt.Sprint(n) != s {
		return 0, fmt.Errorf("not int")
	}
	return n, nil
}

func (vc *VC) storeWhat(addr ssa.Value) string {
	switch a := addr.(type) {
	case *ssa.FieldAddr:
		st := a.X.Type().Underlying().(*types.Pointer).Elem()
		name := st.String()
		if n, ok := st.(*types.Named); ok {
			name = n.Obj().Name()
		}
		return name + "." + st.Underlying().(*types.Struct).Field(a.Field).Name()
	case *ssa.IndexAddr:
		return "elem"
	case *ssa.Alloc:
		return "local:" + a.Comment
	case *ssa.Global:
		return "global:" + a.Name()
	case *ssa.FreeVar:
		return "captured:" + a.Name()
	}
	return "ptr"
}

func (vc *VC) safety(act *Act, st *State, kind, f string, pos token.Pos) {
	if vc.checkSafety && act.depth == 0 {
		n := vc.counts["safety#"+kind]
		vc.oblige(st, &Obligation{Name: fmt.Sprintf("%s#safety#%s#%d", vc.eng.shortName(act.fn), kind, n), Kind: "safety", Src: vc.srcPos(pos), Tags: append([]string{"safety"}, vc.fcTags()...)}, f)
		return
	}
	// partial correctness: the run-time check passed
	vc.assume(st, f)
}

func (vc *VC) fcTags() []string {
	if vc.fc != nil {
		return vc.fc.Tags
	}
	return nil
}

func (vc *VC) nilCheck(act *Act, st *State, p PtrV, pos token.Pos, what string) {
	vc.safety(act, st, "nil", fmt.Sprintf("(> %s 0)", p.ref), pos)
}

func (vc *VC) unop(act *Act, st *State, i *ssa.UnOp) {
	switch i.Op {
	case token.MUL:
		p := vc.val(act, i.X).(PtrV)
		vc.nilCheck(act, st, p, i.Pos(), "load")
		act.env[i] = vc.load(st, p, i.Type())
		if fa, ok := i.X.(*ssa.FieldAddr); ok {
			// reads of a named field can be matched by sites (`match load T.f`): arg0 is the value read
			vc.siteCheck(act, st, "load "+vc.storeWhat(fa), i, nil, []Val{act.env[i]}, []types.Type{i.Type()}, vc.val(act, fa.X), fa.X.Type())
		}
	case token.ARROW:
		ch := vc.val(act, i.X)
		vc.fireEvent(act, st, "recv", "", nil, []Val{ch}, i)
		t := i.Type()
		act.env[i] = vc.freshVal(st, "rcv", t)
	case token.NOT:
		act.env[i] = IntV{b2i(not(i2b(vc.val(act, i.X).(IntV).t)))}
	case token.SUB:
		if isFloat(i.Type()) {
			act.env[i] = IntV{vc.uf("fneg", vc.val(act, i.X).(IntV).t)}
		} else {
			act.env[i] = IntV{fmt.Sprintf("(- 0 %s)", vc.val(act, i.X).(IntV).t)}
		}
	case token.XOR:
		act.env[i] = IntV{vc.uf("bitnot", vc.val(act, i.X).(IntV).t)}
	default:
		unsupp("unop %s", i)
	}
}

func isFloat(t types.Type) bool {
	b, ok := t.Underlying().(*types.Basic)
	return ok && b.Info()&(types.IsFloat|types.IsComplex) != 0
}
func isString(t types.Type) bool {
	b, ok := t.Underlying().(*types.Basic)
	return ok && b.Info()&types.IsString != 0
}
func isUnsigned(t types.Type) bool {
	b, ok := t.Underlying().(*types.Basic)
	return ok && b.Info()&types.IsUnsigned != 0
}

func (vc *VC) uf(name string, args ...string) string {
	sig := "(" + strings.TrimSpace(strings.Repeat("Int ", len(args))) + ") Int"
	vc.declareFun("uf_"+name, sig)
	if len(args) == 0 {
		return "uf_" + name
	}
	return "(uf_" + name + " " + strings.Join(args, " ") + ")"
}

func (vc *VC) binop(act *Act, st *State, i *ssa.BinOp) Val {
	x, y := vc.val(act, i.X), vc.val(act, i.Y)
	switch a := x.(type) {
	case IntV:
		b, ok := y.(IntV)
		if !ok {
			unsupp("binop operands %T %T", x, y)
		}
		if isString(i.X.Type()) {
			switch i.Op {
			case token.ADD:
				r := vc.def("cat", "Int", vc.uf("strcat", a.t, b.t))
				vc.assume(st, fmt.Sprintf("(= %s (+ %s %s))", vc.strLen(st, r), vc.strLen(st, a.t), vc.strLen(st, b.t)))
				return IntV{r}
			case token.EQL:
				return IntV{b2i(eq(a.t, b.t))}
			case token.NEQ:
				return IntV{b2i(not(eq(a.t, b.t)))}
			default:
				vc.declareFun("strlt", "(Int Int) Bool")
				lt := fmt.Sprintf("(strlt %s %s)", a.t, b.t)
				gt := fmt.Sprintf("(strlt %s %s)", b.t, a.t)
				switch i.Op {
				case token.LSS:
					return IntV{b2i(lt)}
				case token.GTR:
					return IntV{b2i(gt)}
				case token.LEQ:
					return IntV{b2i(not(gt))}
				case token.GEQ:
					return IntV{b2i(not(lt))}
				}
			}
		}
		if isFloat(i.X.Type()) {
			switch i.Op {
			case token.EQL:
				return IntV{b2i(eq(a.t, b.t))}
			case token.NEQ:
				return IntV{b2i(not(eq(a.t, b.t)))}
			case token.ADD, token.SUB, token.MUL, token.QUO:
				return IntV{vc.uf("f"+map[token.Token]string{token.ADD: "add", token.SUB: "sub", token.MUL: "mul", token.QUO: "div"}[i.Op], a.t, b.t)}
			default:
				vc.declareFun("flt", "(Int Int) Bool")
				lt := fmt.Sprintf("(flt %s %s)", a.t, b.t)
				gt := fmt.Sprintf("(flt %s %s)", b.t, a.t)
				switch i.Op {
				case token.LSS:
					return IntV{b2i(lt)}
				case token.GTR:
					return IntV{b2i(gt)}
				case token.LEQ:
					return IntV{b2i(not(gt))}
				case token.GEQ:
					return IntV{b2i(not(lt))}
				}
			}
		}
		switch i.Op {
		case token.ADD:
			return IntV{fmt.Sprintf("(+ %s %s)", a.t, b.t)}
		case token.SUB:
			return IntV{fmt.Sprintf("(- %s %s)", a.t, b.t)}
		case token.MUL:
			if !isConstInt(a.t) && !isConstInt(b.t) {
				vc.nonlinear = true
			}
			return IntV{fmt.Sprintf("(* %s %s)", a.t, b.t)}
		case token.QUO:
			if !isConstInt(b.t) {
				vc.nonlinear = true
			}
			vc.safety(act, st, "div", not(eq(b.t, "0")), i.Pos())
			// Go truncates toward zero
			return IntV{vc.def("q", "Int", fmt.Sprintf("(ite (>= %s 0) (div %s %s) (- (div (- %s) %s)))", a.t, a.t, b.t, a.t, b.t))}
		case token.REM:
			if !isConstInt(b.t) {
				vc.nonlinear = true
			}
			vc.safety(act, st, "div", not(eq(b.t, "0")), i.Pos())
			return IntV{vc.def("rm", "Int", fmt.Sprintf("(ite (>= %s 0) (mod %s %s) (- (mod (- %s) %s)))", a.t, a.t, b.t, a.t, b.t))}
		case token.EQL:
			return IntV{b2i(eq(a.t, b.t))}
		case token.NEQ:
			return IntV{b2i(not(eq(a.t, b.t)))}
		case token.LSS:
			return IntV{b2i(fmt.Sprintf("(< %s %s)", a.t, b.t))}
		case token.LEQ:
			return IntV{b2i(fmt.Sprintf("(<= %s %s)", a.t, b.t))}
		case token.GTR:
			return IntV{b2i(fmt.Sprintf("(> %s %s)", a.t, b.t))}
		case token.GEQ:
			return IntV{b2i(fmt.Sprintf("(>= %s %s)", a.t, b.t))}
		case token.AND, token.OR, token.XOR, token.SHL, token.SHR, token.AND_NOT:
			if bt, ok := i.X.Type().Underlying().(*types.Basic); ok && bt.Info()&types.IsBoolean != 0 {
				switch i.Op {
				case token.AND:
					return IntV{b2i(and(i2b(a.t), i2b(b.t)))}
				case token.OR:
					return IntV{b2i(or(i2b(a.t), i2b(b.t)))}
				}
			}
			r := vc.def("bits", "Int", vc.uf("bit_"+strings.ToLower(i.Op.String()[:0])+opName(i.Op), a.t, b.t))
			if isUnsigned(i.Type()) {
				vc.assume(st, fmt.Sprintf("(>= %s 0)", r))
			}
			return IntV{r}
		}
	case PtrV:
		b := y.(PtrV)
		e := and(eq(a.ref, b.ref), eq(a.idx, b.idx))
		if i.Op == token.EQL {
			return IntV{b2i(e)}
		}
		return IntV{b2i(not(e))}
	case SliceV:
		if i.Op == token.EQL {
			return IntV{b2i(eq(a.ref, "0"))}
		}
		return IntV{b2i(not(eq(a.ref, "0")))}
	case MapV:
		if i.Op == token.EQL {
			return IntV{b2i(eq(a.ref, "0"))}
		}
		return IntV{b2i(not(eq(a.ref, "0")))}
	case IfaceV:
		b := y.(IfaceV)
		e := and(eq(a.tag, b.tag), eq(a.box, b.box))
		if i.Op == token.EQL {
			return IntV{b2i(e)}
		}
		return IntV{b2i(not(e))}
	case StructV:
		e := eqLeaves(x, y)
		if i.Op == token.EQL {
			return IntV{b2i(e)}
		}
		return IntV{b2i(not(e))}
	case ClosureV:
		// comparison with nil
		if i.Op == token.EQL {
			return IntV{"0"}
		}
		return IntV{"1"}
	}
	unsupp("binop %s", i)
	return nil
}

func opName(t token.Token) string {
	switch t {
	case token.AND:
		return "and"
	case token.OR:
		return "or"
	case token.XOR:
		return "xor"
	case token.SHL:
		return "shl"
	case token.SHR:
		return "shr"
	case token.AND_NOT:
		return "andnot"
	}
	return "op"
}

func (vc *VC) convert(act *Act, st *State, i *ssa.Convert) Val {
	x := vc.val(act, i.X)
	from, to := i.X.Type().Underlying(), i.Type().Underlying()
	fb, fok := from.(*types.Basic)
	tb, tok := to.(*types.Basic)
	if fok && tok {
		switch {
		case fb.Info()&types.IsInteger != 0 && tb.Info()&types.IsInteger != 0:
			// widening keeps the value; narrowing / sign change yields a value in range, equal when it fits
			v := x.(IntV)
			r := vc.fresh("cv", "Int")
			rng := vc.wf(st, IntV{r}, i.Type())
			vc.assume(st, rng)
			fits := strings.ReplaceAll(rng, r, v.t)
			if rng == "true" {
				return v
			}
			vc.assume(st, implies(fits, eq(r, v.t)))
			return IntV{r}
		case fb.Info()&types.IsString != 0 && tb.Info()&types.IsString != 0:
			return x
		case fb.Info()&types.IsInteger != 0 && tb.Info()&types.IsString != 0:
			return IntV{vc.def("cs", "Int", vc.uf("runestr", x.(IntV).t))}
		case fb.Info()&types.IsInteger != 0 && tb.Info()&types.IsFloat != 0:
			return x
		case fb.Info()&types.IsFloat != 0 && tb.Info()&types.IsFloat != 0:
			return x
		case fb.Info()&types.IsFloat != 0 && tb.Info()&types.IsInteger != 0:
			r := vc.freshVal(st, "f2i", i.Type())
			return r
		case fb.Kind() == types.UnsafePointer || tb.Kind() == types.UnsafePointer:
			unsupp("unsafe conversion")
		}
	}
	// string <-> []byte / []rune
	if _, ok := to.(*types.Slice); ok && fok && fb.Info()&types.IsString != 0 {
		el := to.(*types.Slice).Elem()
		ref := vc.allocArray(st, el)
		ln := vc.strLen(st, x.(IntV).t)
		if b, ok := el.Underlying().(*types.Basic); ok && b.Kind() == types.Uint8 {
			row := vc.fresh("row", "(Array Int Int)")
			vc.declareFun("strbyte", "(Int Int) Int")
			vc.assume(st, fmt.Sprintf("(forall ((j Int)) (! (= (select %s j) (strbyte %s j)) :pattern ((select %s j))))", row, x.(IntV).t, row))
			st.mi = vc.def("MI", memSort, fmt.Sprintf("(store %s %s %s)", st.mi, ref, row))
			return SliceV{ref, "0", ln, ln}
		}
		n := vc.fresh("nrunes", "Int")
		vc.assume(st, fmt.Sprintf("(and (>= %s 0) (<= %s %s))", n, n, ln))
		return SliceV{ref, "0", n, n}
	}
	if _, ok := from.(*types.Slice); ok && tok && tb.Info()&types.IsString != 0 {
		s := x.(SliceV)
		r := vc.fresh("bstr", "Int")
		if b, ok := from.(*types.Slice).Elem().Underlying().(*types.Basic); ok && b.Kind() == types.Uint8 {
			vc.assume(st, eq(vc.strLen(st, r), s.ln))
		}
		return IntV{r}
	}
	if types.Identical(from, to) {
		return x
	}
	unsupp("convert %s -> %s", i.X.Type(), i.Type())
	return nil
}

func (vc *VC) typeAssert(act *Act, st *State, i *ssa.TypeAssert) {
	x := vc.val(act, i.X).(IfaceV)
	if types.IsInterface(i.AssertedType) {
		var okc string
		if it, _ := i.AssertedType.Underlying().(*types.Interface); it != nil && it.NumMethods() == 0 {
			okc = not(eq(x.tag, "0"))
		} else {
			okc = and(not(eq(x.tag, "0")), vc.implementsTerm(x.tag, i.AssertedType))
		}
		if i.CommaOk {
			act.env[i] = TupleV{[]Val{iteVal(okc, x, IfaceV{"0", "0"}), IntV{b2i(okc)}}}
		} else {
			vc.safety(act, st, "typeassert", okc, i.Pos())
			act.env[i] = x
		}
		return
	}
	okc := eq(x.tag, fmt.Sprint(vc.tid(i.AssertedType)))
	payload := vc.unbox(st, x, i.AssertedType)
	if i.CommaOk {
		act.env[i] = TupleV{[]Val{iteVal(okc, payload, zeroVal(i.AssertedType)), IntV{b2i(okc)}}}
	} else {
		vc.safety(act, st, "typeassert", okc, i.Pos())
		act.env[i] = payload
	}
}

func (vc *VC) sliceOp(act *Act, st *State, i *ssa.Slice) {
	xv := vc.val(act, i.X)
	if sv, ok := xv.(IntV); ok && isString(i.X.Type()) {
		lo, hi := "0", vc.strLen(st, sv.t)
		full := i.Low == nil && i.High == nil
		if i.Low != nil {
			lo = vc.val(act, i.Low).(IntV).t
		}
		if i.High != nil {
			hi = vc.val(act, i.High).(IntV).t
		}
		if full {
			act.env[i] = sv
			return
		}
		vc.safety(act, st, "slicebounds", fmt.Sprintf("(and (<= 0 %s) (<= %s %s) (<= %s %s))", lo, lo, hi, hi, vc.strLen(st, sv.t)), i.Pos())
		r := vc.def("sub", "Int", vc.uf("substr", sv.t, lo, hi))
		vc.assume(st, eq(vc.strLen(st, r), fmt.Sprintf("(- %s %s)", hi, lo)))
		vc.assume(st, implies(and(eq(lo, "0"), eq(hi, vc.strLen(st, sv.t))), eq(r, sv.t)))
		act.env[i] = IntV{r}
		return
	}
	var base SliceV
	switch x := xv.(type) {
	case SliceV:
		base = x
	case PtrV:
		arr := i.X.Type().Underlying().(*types.Pointer).Elem().Underlying().(*types.Array)
		w := width(arr.Elem())
		if w == 0 {
			w = 1
		}
		// slices of arrays embedded in objects: offset in elements requires idx divisible by w
		if x.idx != "0" {
			unsupp("slice of interior array")
		}
		base = SliceV{x.ref, "0", fmt.Sprint(arr.Len()), fmt.Sprint(arr.Len())}
	default:
		unsupp("slice of %T", xv)
	}
	lo, hi, mx := "0", base.ln, base.cp
	if i.Low != nil {
		lo = vc.val(act, i.Low).(IntV).t
	}
	if i.High != nil {
		hi = vc.val(act, i.High).(IntV).t
	}
	if i.Max != nil {
		mx = vc.val(act, i.Max).(IntV).t
	}
	vc.safety(act, st, "slicebounds", fmt.Sprintf("(and (<= 0 %s) (<= %s %s) (<= %s %s) (<= %s %s))", lo, lo, hi, hi, mx, mx, base.cp), i.Pos())
	act.env[i] = SliceV{base.ref, vc.def("so", "Int", plusT(base.off, lo)), vc.def("sl", "Int", minusT(hi, lo)), vc.def("sc", "Int", minusT(mx, lo))}
}

// ---------- maps ----------
// A map object stores, for key id k (an Int: integer keys, string ids, or a hash of the key
// leaves) the presence flag at MI[ref][k*(w+1)] and the value leaves after it.
func (vc *VC) mapKey(st *State, k Val, kt types.Type) string {
	ls := flatten(k)
	if len(ls) == 1 {
		return ls[0]
	}
	return vc.def("mk", "Int", vc.uf(fmt.Sprintf("mapkey%d", len(ls)), ls...))
}

func (vc *VC) mapLoad(st *State, m MapV, key string, vt types.Type) (Val, string) {
	w := width(vt) + 1
	base := vc.mapSlot(key, w)
	present := vc.def("mp", "Int", vc.sel(st.mi, m.ref, base))
	lay := layout(vt)
	leaves := make([]string, len(lay))
	for k, kind := range lay {
		mem := st.mi
		if kind == 'r' {
			mem = st.mr
		}
		leaves[k] = vc.def("mv", "Int", vc.sel(mem, m.ref, add(base, k+1)))
	}
	v, _ := unflatten(vt, leaves)
	pres := and(not(eq(m.ref, "0")), eq(present, "1"))
	vc.assume(st, implies(pres, vc.wf(st, v, vt)))
	vc.assume(st, or(eq(present, "0"), eq(present, "1")))
	return v, pres
}

func (vc *VC) lookup(act *Act, st *State, i *ssa.Lookup) {
	xv := vc.val(act, i.X)
	if sv, ok := xv.(IntV); ok && isString(i.X.Type()) {
		idx := vc.val(act, i.Index).(IntV).t
		vc.safety(act, st, "index", fmt.Sprintf("(and (>= %s 0) (< %s %s))", idx, idx, vc.strLen(st, sv.t)), i.Pos())
		vc.declareFun("strbyte", "(Int Int) Int")
		b := vc.def("sb", "Int", fmt.Sprintf("(strbyte %s %s)", sv.t, idx))
		vc.assume(st, fmt.Sprintf("(and (>= %s 0) (<= %s 255))", b, b))
		act.env[i] = IntV{b}
		return
	}
	m := xv.(MapV)
	mt := i.X.Type().Underlying().(*types.Map)
	vc.fireMapEvent(act, st, "mapread", i.X, i)
	key := vc.mapKey(st, vc.val(act, i.Index), mt.Key())
	v, pres := vc.mapLoad(st, m, key, mt.Elem())
	val := iteVal(pres, v, zeroVal(mt.Elem()))
	if i.CommaOk {
		act.env[i] = TupleV{[]Val{val, IntV{b2i(pres)}}}
	} else {
		act.env[i] = val
	}
	// maplookup events see the value found and the presence flag
	for _, ev := range vc.eng.eventsFor("maplookup", vc.mapWhat(i.X)) {
		vc.applyEvent(act, st, st.clone(), ev, []Val{val, IntV{b2i(pres)}}, []types.Type{mt.Elem(), types.Typ[types.Bool]}, nil, nil, i)
	}
}

func (vc *VC) mapUpdate(act *Act, st *State, i *ssa.MapUpdate) {
	m := vc.val(act, i.Map).(MapV)
	mt := i.Map.Type().Underlying().(*types.Map)
	vc.fireMapEvent(act, st, "mapwrite", i.Map, i)
	{
		var recv Val
		var recvT types.Type
		if u, ok := i.Map.(*ssa.UnOp); ok {
			if fa, ok := u.X.(*ssa.FieldAddr); ok {
				recv, recvT = vc.val(act, fa.X), fa.X.Type()
			}
		}
		vc.siteCheck(act, st, "mapwrite "+mapWhatOf(i.Map), i, nil, []Val{m, vc.val(act, i.Key), vc.val(act, i.Value)}, []types.Type{i.Map.Type(), i.Key.Type(), i.Value.Type()}, recv, recvT)
	}
	vc.safety(act, st, "nilmap", not(eq(m.ref, "0")), i.Pos())
	key := vc.mapKey(st, vc.val(act, i.Key), mt.Key())
	w := width(mt.Elem()) + 1
	base := vc.mapSlot(key, w)
	vc.frameCheck(st, m.ref, "", "", "mapupdate", vc.mapWhat(i.Map), i.Pos())
	st.mi = vc.def("MI", memSort, fmt.Sprintf("(store %s %s (store (select %s %s) %s 1))", st.mi, m.ref, st.mi, m.ref, base))
	vc.writeLeaves(st, m.ref, add(base, 1), mt.Elem(), flatten(vc.val(act, i.Value)))
}

func (vc *VC) mapWhat(m ssa.Value) string {
	if u, ok := m.(*ssa.UnOp); ok {
		return vc.storeWhat(u.X)
	}
	return "map"
}

func (vc *VC) next(act *Act, st *State, i *ssa.Next) {
	it := vc.val(act, i.Iter).(TupleV)
	rng := i.Iter.(*ssa.Range)
	tup := i.Type().(*types.Tuple)
	ok := vc.fresh("nextok", "Int")
	vc.assume(st, or(eq(ok, "0"), eq(ok, "1")))
	if i.IsString {
		k := vc.freshVal(st, "rk", tup.At(1).Type())
		v := vc.freshVal(st, "rv", tup.At(2).Type())
		act.env[i] = TupleV{[]Val{IntV{ok}, k, v}}
		return
	}
	m := it.f[0].(MapV)
	mt := rng.X.Type().Underlying().(*types.Map)
	vc.fireMapEvent(act, st, "mapread", rng.X, i)
	kv := vc.freshVal(st, "rk", mt.Key())
	key := vc.mapKey(st, kv, mt.Key())
	v, pres := vc.mapLoad(st, m, key, mt.Elem())
	vc.assume(st, implies(eq(ok, "1"), pres))
	act.env[i] = TupleV{[]Val{IntV{ok}, kv, v}}
	// visited set: a delivered key is present and new; when the iteration ends every present key was delivered
	rid := vc.rangeID(rng)
	vis, okv := st.visited[rid]
	if !okv {
		vis = vc.fresh("vis", "(Array Int Bool)")
	}
	vc.assume(st, implies(eq(ok, "1"), fmt.Sprintf("(not (select %s %s))", vis, key)))
	w := width(mt.Elem()) + 1
	slot := vc.mapSlot("q", w)
	if !isAtom(m.ref) {
		m = MapV{vc.def("mref", "Int", m.ref)} // patterns must not contain ite
	}
	vc.assume(st, implies(eq(ok, "0"), fmt.Sprintf("(forall ((q Int)) (! (=> (and (not (= %s 0)) (= (select (select %s %s) %s) 1)) (select %s q)) :pattern ((select (select %s %s) %s)) :pattern ((select %s q))))", m.ref, st.mi, m.ref, slot, vis, st.mi, m.ref, slot, vis)))
	st.visited[rid] = vc.def("vis", "(Array Int Bool)", fmt.Sprintf("(ite (= %s 1) (store %s %s true) %s)", ok, vis, key, vis))
	// mapnext events: arg0 is 1 when an entry was delivered, 0 at the end of the iteration
	for _, ev := range vc.eng.eventsFor("mapnext", vc.mapWhat(rng.X)) {
		vc.applyEvent(act, st, st.clone(), ev, []Val{IntV{ok}, v}, []types.Type{types.Typ[types.Int], mt.Elem()}, nil, nil, i)
	}
}

// fieldStoreHook: K3 immutable-field whitelist bookkeeping is done statically (sweep.go);
// here only store-site events (e.g. "store DB.Error") are fired.
func (vc *VC) fieldStoreHook(act *Act, st *State, i *ssa.Store, p PtrV) {
	if fa, ok := i.Addr.(*ssa.FieldAddr); ok {
		key := vc.storeWhat(fa)
		vc.siteCheck(act, st, "store "+key, i, nil, []Val{vc.val(act, i.Val)}, []types.Type{i.Val.Type()}, vc.val(act, fa.X), fa.X.Type())
	}
	if ia, ok := i.Addr.(*ssa.IndexAddr); ok {
		if sl, ok := ia.X.Type().Underlying().(*types.Slice); ok {
			sh := "storeelem " + types.TypeString(sl.Elem(), func(p *types.Package) string { return p.Name() })
			vc.siteCheck(act, st, sh, i, nil, []Val{vc.val(act, i.Val), vc.val(act, ia.Index)}, []types.Type{i.Val.Type(), ia.Index.Type()}, vc.val(act, ia.X), ia.X.Type())
		}
	}
}
