//go:build verif

// Contracts for package gorm (comment-only; compiled only under the verif tag).
package gorm

//@ package gorm.io/gorm

//@ # ---------- C04: transaction protocol ghost state ----------
//@ ghost begins commits rollbacks sps rbtos fccalls spname rbname fcerrtag fcerrbox opened

//@ event call (*DB).Begin
//@   do begins = begins + 1
//@ event call (*DB).Commit
//@   do commits = commits + 1
//@ event call (*DB).Rollback
//@   do rollbacks = rollbacks + 1
//@ event call (*DB).SavePoint
//@   do sps = sps + 1
//@   do spname = arg1
//@ event call (*DB).RollbackTo
//@   do rbtos = rbtos + 1
//@   do rbname = arg1
//@ event callparam fc
//@   do fccalls = fccalls + 1
//@   do fcerrtag = tagof(result)
//@   do fcerrbox = boxof(result)

//@ func (*DB).Transaction
//@   tags C04
//@   may-panic fc
//@   ensures fc-once: fccalls <= old(fccalls) + 1
//@   ensures outer-commit: begins == old(begins) + 1 && fccalls == old(fccalls) + 1 && result == nil ==> commits == old(commits) + 1 && rollbacks == old(rollbacks)
//@   ensures outer-rollback: begins == old(begins) + 1 && fccalls == old(fccalls) + 1 && result != nil ==> rollbacks == old(rollbacks) + 1
//@   ensures fc-error-unchanged: fccalls == old(fccalls) + 1 && fcerrtag != 0 ==> commits == old(commits) && tagof(result) == fcerrtag && boxof(result) == fcerrbox
//@   ensures nested-rollbackto: begins == old(begins) && sps == old(sps) + 1 && fccalls == old(fccalls) + 1 ==> ite(fcerrtag != 0, rbtos == old(rbtos) + 1 && rbname == spname, rbtos == old(rbtos))
//@   ensures nested-savepoint-failed: begins == old(begins) && sps == old(sps) + 1 && fccalls == old(fccalls) ==> result != nil && rbtos == old(rbtos)
//@   ensures nested-disabled: sps == old(sps) ==> rbtos == old(rbtos)
//@   ensures nested-outer-untouched: begins == old(begins) ==> commits == old(commits) && rollbacks == old(rollbacks)
//@   ensures begin-failed: begins == old(begins) + 1 && fccalls == old(fccalls) ==> result != nil && commits == old(commits)
//@   ensures-on-panic outer: begins == old(begins) + 1 ==> rollbacks == old(rollbacks) + 1 && commits == old(commits)
//@   ensures-on-panic nested: begins == old(begins) && sps == old(sps) + 1 ==> rbtos == old(rbtos) + 1 && rbname == spname
//@   ensures-on-panic nested-outer-untouched: begins == old(begins) ==> commits == old(commits) && rollbacks == old(rollbacks)
