package main

import (
	"fmt"
	"regexp"
	"strings"
)

func init() {
	replayBuilders = append(replayBuilders, replayMergeAppend)
}

var mergeRecvRe = regexp.MustCompile(`^(\w+)\.\(\*?(\w+)\)\.MergeClause`)

// replayMergeAppend: an in-place append inside a MergeClause implementation. The test builds the
// existing clause with a slice of the model's length and capacity, merges, and compares every cell
// of the old backing array (up to its capacity) before and after.
func replayMergeAppend(e *Engine, o *Obligation) *replayTest {
	if o.Info == nil || o.Info["replay"] != "append" {
		return nil
	}
	m := mergeRecvRe.FindStringSubmatch(o.Name)
	if m == nil {
		return nil
	}
	pkg, typ := m[1], m[2]
	vals := o.infoValues()
	bl, bc, ml := vals["base_len"], vals["base_cap"], vals["more_len"]
	if bc > 64 || ml > 64 || bc < bl || ml <= 0 {
		bl, bc, ml = 3, 4, 1
	}
	dir := pkg
	if pkg == "gorm" {
		dir = ""
	}
	pkgName := pkg
	src := fmt.Sprintf(`package %s

import (
	"fmt"
	"reflect"
	"testing"
)

func gvcFill(v reflect.Value, tag string, n *int) {
	switch v.Kind() {
	case reflect.String:
		*n++
		v.SetString(fmt.Sprintf("%%s%%d", tag, *n))
	case reflect.Struct:
		for i := 0; i < v.NumField(); i++ {
			if v.Field(i).CanSet() {
				gvcFill(v.Field(i), tag, n)
			}
		}
	case reflect.Interface:
		*n++
		x := reflect.ValueOf(fmt.Sprintf("%%s%%d", tag, *n))
		if x.Type().Implements(v.Type()) || v.Type().NumMethod() == 0 {
			v.Set(x)
		} else if ev := reflect.ValueOf(gvcExprLike(fmt.Sprintf("%%s%%d", tag, *n))); ev.IsValid() && ev.Type().Implements(v.Type()) {
			v.Set(ev)
		}
	}
}

// gvcSliceField finds the first slice-typed part of a clause value (the value itself or a field).
func gvcSliceField(v reflect.Value) reflect.Value {
	if v.Kind() == reflect.Slice {
		return v
	}
	for i := 0; i < v.NumField(); i++ {
		if v.Field(i).Kind() == reflect.Slice {
			return v.Field(i)
		}
	}
	return reflect.Value{}
}

func gvcMake(t reflect.Type, ln, cp int, tag string) reflect.Value {
	p := reflect.New(t).Elem()
	f := gvcSliceField(p)
	s := reflect.MakeSlice(f.Type(), ln, cp)
	n := 0
	for i := 0; i < ln; i++ {
		gvcFill(s.Index(i), tag, &n)
	}
	f.Set(s)
	return p
}

func TestGvcReplay(t *testing.T) {
	typ := reflect.TypeOf(%s{})
	old := gvcMake(typ, %d, %d, "old")
	newer := gvcMake(typ, %d, %d, "new")
	whole := func() string {
		f := gvcSliceField(old)
		return fmt.Sprintf("%%#v", f.Slice3(0, f.Cap(), f.Cap()).Interface())
	}
	before := whole()
	c := Clause{Expression: old.Interface().(Expression)}
	newer.Interface().(Interface).MergeClause(&c)
	after := whole()
	if before != after {
		t.Fatalf("MergeClause wrote into the backing array of the existing clause (len %d cap %d):\nbefore %%s\nafter  %%s", before, after)
	}
}
`, pkgName, typ, bl, bc, ml, ml, bl, bc)
	if pkg == "clause" {
		src += "\nfunc gvcExprLike(s string) interface{} { return Expr{SQL: s} }\n"
	} else {
		src = strings.Replace(src, "c := Clause{", "c := clause.Clause{", 1)
		return nil
	}
	return &replayTest{source: src, dir: dir, file: "zz_gvc_replay_test.go", run_: "TestGvcReplay$"}
}
