#!/usr/bin/env python3
"""greedy minimal unsat core of assertions (keeps the last assert)"""
import sys, subprocess
src=open(sys.argv[1]).read().split('\n')
asserts=[i for i,l in enumerate(src) if l.startswith('(assert')]
def unsat(keep):
    ks=set(keep)|{asserts[-1]}
    txt='\n'.join(l for i,l in enumerate(src) if (i not in set(asserts) or i in ks) and not l.startswith('(get-'))
    open('/tmp/core.smt2','w').write(txt)
    r=subprocess.run(['z3-new','-T:10','/tmp/core.smt2'],capture_output=True,text=True).stdout.split('\n')[0]
    return r=='unsat'
cur=asserts[:-1]
assert unsat(cur)
n=2
while len(cur)>=1:
    size=max(1,len(cur)//n); removed=False
    for i in range(0,len(cur),size):
        cand=cur[:i]+cur[i+size:]
        if unsat(cand):
            cur=cand; n=max(n-1,2); removed=True; break
    if not removed:
        if size==1: break
        n=min(n*2,len(cur))
for i in cur: print(src[i][:700])
print(src[asserts[-1]])
