#!/bin/bash
# usage: run_seeds.sh [workdir]   (ALL=1 for every check against every change)
# Runs every kept seeded change (/verif/seeded/*/patch.diff) against all claimed checks, in scratch copies of
# /repo and /verif (nothing is applied to /repo itself). Writes /verif/seeded/RESULTS.tsv.
set -u
W=${1:-/tmp/seedrun}
rm -rf $W; mkdir -p $W/base_repo $W/base_verif
# snapshots of the committed states, so that concurrent edits do not disturb the sweep
git -C /repo archive HEAD | tar -x -C $W/base_repo
git -C /verif archive HEAD | tar -x -C $W/base_verif
cp /verif/bin/gvc $W/gvc
props=$(python3 -c "import json;print(' '.join(c['property_id'] for c in json.load(open('/verif/MANIFEST.json'))['checks']))")
out=${OUT:-/verif/seeded/RESULTS.tsv}
: > $out.tmp
for d in /verif/seeded/*/; do
  id=$(basename $d)
  [ -f $d/patch.diff ] || continue
  if [ -n "${ONLY:-}" ]; then case " $ONLY " in *" $id "*) ;; *) continue;; esac; fi
  rm -rf $W/repo $W/verif
  rsync -a $W/base_repo/ $W/repo/
  rsync -a --exclude evidence --exclude replays --exclude seeded $W/base_verif/ $W/verif/
  if ! (cd $W/repo && patch -p1 -s --no-backup-if-mismatch < $d/patch.diff >/dev/null 2>&1); then echo -e "$id\tPATCH-DOES-NOT-APPLY" >> $out.tmp; continue; fi
  caught=""
  own=${id%%-*}
  plist=$props
  [ -z "${ALL:-}" ] && plist=$own   # default: the seed's own property; ALL=1 runs every claimed check (cross alarms)
  for p in $plist; do
    res=$(GVC_REPO=$W/repo GVC_VERIF=$W/verif $W/gvc check $p 2>&1)
    rc=$?
    if [ $rc -eq 1 ]; then
      ob=$(echo "$res" | grep -m2 "^  obligation\|^  anchor\|^  .*:" | head -1 | cut -c1-160)
      caught="$caught $p"
      echo -e "$id\t$p\tVIOLATION\t$ob" >> $out.tmp
    elif [ $rc -ne 0 ]; then
      echo -e "$id\t$p\tEXIT-$rc\t$(echo "$res" | tail -1 | cut -c1-160)" >> $out.tmp
    fi
  done
  [ -z "$caught" ] && echo -e "$id\t-\tMISSED" >> $out.tmp
done
mv $out.tmp $out
rm -rf $W
echo done
