package main

import (
	"fmt"
	"go/ast"
	"go/parser"
	"os"
	"path/filepath"
	"regexp"
	"sort"
	"strings"
)

// ---------- contract files ----------
// Contracts are `//@` comment lines in /repo/<pkg>/zz_contracts_verif.go (build tag verif,
// comment-only) with a byte-identical mirror in /verif/contracts/<pkg>.go.

type Clause struct {
	Kind  string // requires ensures ensures-on-panic invariant assert do let modifies
	Text  string
	Expr  ast.Expr
	Tags  []string
	Label string
	File  string
	Line  int
	Name  string // let / do target
	Items []ModItem
}

type ModItem struct {
	Kind string // nothing everything ghost region all(expr[*]) deref(*p) field(p.f)
	Name string
	Expr ast.Expr
	Text string
}

type LoopContract struct {
	Key        string
	Invariants []*Clause
	Modifies   []*Clause
	ExitDo     []*Clause // ghost updates applied when the loop is left through its header
	EntryDo    []*Clause // ghost updates applied when the loop is entered (before the invariants are checked)
	EntryAsserts []*Clause // checked when the loop is entered; not an invariant (nothing is assumed at the head)
	Used       bool
}

type FuncContract struct {
	Kind         string // func iface extern
	Key          string // normalised function key, e.g. "(Limit).MergeClause"
	PkgPath      string
	ParamNames   []string // iface / extern: names for recv + params
	Tags         []string
	Requires     []*Clause
	Assumes      []*Clause // data-structure invariants assumed at entry (listed as assumptions, not checked at call sites)
	Ensures      []*Clause
	EnsPanic     []*Clause
	Modifies     []*Clause
	Lets         []*Clause
	Loops        []*LoopContract
	MayPanic     []string
	Trusted      string
	Pure         bool
	Inline       bool
	NoPanic      bool
	When         *Clause         // case condition of a contract with alternatives (funcalt)
	Alts         []*FuncContract // alternative cases of the same function (each with its own When)
	CaseName     string
	InlineCalls  []string          // callee keys evaluated in place when this function is verified
	Shared       []string          // func: all keys sharing this contract
	Abstract     string            // iface: implementations are not verified (assumed), with reason
	SkipImpl     map[string]string // iface: implementations not verified (key -> reason), reported
	CallbackLoop bool              // extern: calls its closure argument any number of times
	Functional   bool              // extern: result is a function of scalar args
	Allocates    bool
	File         string
	Line         int
	Used         bool
	Asserts      []*Clause // extra: 'assert-at-exit'
	Covers       []*Clause
}

type SpecFunc struct {
	Name   string
	Params []string
	Body   ast.Expr
	Text   string
	Rec    bool
}

type Event struct {
	Kind         string // call invoke builtin mapread mapwrite mapdelete recv go
	Key          string // "(*DB).Commit", "TxCommitter.Commit", "close", "PreparedStmtDB.Stmts"
	PkgPath      string
	Requires     []*Clause
	Do           []*Clause
	Blocking     bool
	Interference bool     // other goroutines may run here: escaping memory is havocked
	In           []string // function globs the event is restricted to (empty: everywhere)
	File         string
	Line         int
	Used         bool
}

type Site struct {
	Name        string
	PkgPath     string
	Match       []string // "invoke ConnPool.ExecContext", "call (*DB).Begin", "store DB.Error"
	In          []string // function key globs (pkg-qualified short: "callbacks.Create$1"); empty = all
	NotIn       []string
	Asserts     []*Clause
	MayBeEmpty  bool
	AssumeAfter []*Clause // assumed about the call's result (stated facts about what lies outside the code)
	Covers      []*Clause // the matched instruction must be reachable in a state where the clause holds
	Lets        []*Clause
	Entry       []*Clause // ghost initialisation assumed at entry of the functions swept
	Tags        []string
	File        string
	Line        int
	MinSites    int
}

type Immutable struct {
	Field   string // "Config.DryRun"
	PkgPath string
	Writers []string
	Tags    []string
	File    string
	Line    int
}

type ContractSet struct {
	Funcs      map[string]*FuncContract // key: pkgpath + " " + Key
	Ifaces     map[string]*FuncContract // key: pkgpath + " " + "Iface.Method"
	Externs    map[string]*FuncContract // key: full ssa name e.g. "strings.ToUpper", "(reflect.Value).Len"
	Specs      map[string]*SpecFunc
	Ghosts     []string
	Events     []*Event
	Sites      []*Site
	Immutables []*Immutable
	Constants  map[string][]string // pkg path -> package-level variables that are never reassigned
	Globals    []*Clause           // invariants of such constants (assumed)
	GlobalPkg  map[*Clause]string
	Sources    []string       // files used
	Scan       map[string]int // occurrences of assume/trusted
	order      []*FuncContract
}

var tagRe = regexp.MustCompile(`\s*\[((?:C\d+|[A-Za-z0-9_:-]+)(?:\s*,\s*(?:C\d+|[A-Za-z0-9_:-]+))*)\]\s*$`)
var labelRe = regexp.MustCompile(`^([A-Za-z][A-Za-z0-9_-]*):\s+`)

func splitTags(text string) (string, []string) {
	m := tagRe.FindStringSubmatchIndex(text)
	if m == nil {
		return strings.TrimSpace(text), nil
	}
	var tags []string
	for _, t := range strings.Split(text[m[2]:m[3]], ",") {
		tags = append(tags, strings.TrimSpace(t))
	}
	return strings.TrimSpace(text[:m[0]]), tags
}

// ---- expression preprocessing ----
func matchClose(s string, i int) int {
	open := s[i]
	var cl byte
	switch open {
	case '(':
		cl = ')'
	case '[':
		cl = ']'
	case '{':
		cl = '}'
	}
	depth := 0
	for j := i; j < len(s); j++ {
		c := s[j]
		if c == '"' || c == '`' || c == '\'' {
			j = skipLit(s, j)
			continue
		}
		if c == open {
			depth++
		} else if c == cl {
			depth--
			if depth == 0 {
				return j
			}
		}
	}
	return -1
}
func skipLit(s string, i int) int {
	q := s[i]
	for j := i + 1; j < len(s); j++ {
		if s[j] == '\\' && q != '`' {
			j++
			continue
		}
		if s[j] == q {
			return j
		}
	}
	return len(s) - 1
}
func splitTop(s string, sep byte) []string {
	var parts []string
	last := 0
	for i := 0; i < len(s); i++ {
		c := s[i]
		if c == '"' || c == '`' || c == '\'' {
			i = skipLit(s, i)
			continue
		}
		if c == '(' || c == '[' || c == '{' {
			j := matchClose(s, i)
			if j < 0 {
				break
			}
			i = j
			continue
		}
		if c == sep {
			parts = append(parts, s[last:i])
			last = i + 1
		}
	}
	parts = append(parts, s[last:])
	return parts
}
func topIndex(s, op string) int {
	for i := 0; i < len(s); i++ {
		c := s[i]
		if c == '"' || c == '`' || c == '\'' {
			i = skipLit(s, i)
			continue
		}
		if c == '(' || c == '[' || c == '{' {
			j := matchClose(s, i)
			if j < 0 {
				return -1
			}
			i = j
			continue
		}
		if strings.HasPrefix(s[i:], op) {
			return i
		}
	}
	return -1
}

// rewriteSpec turns `a ==> b` into __imp(a, b), `x[*]` into __all(x).
func rewriteSpec(s string) string {
	var out strings.Builder
	for i := 0; i < len(s); {
		c := s[i]
		if c == '"' || c == '`' || c == '\'' {
			j := skipLit(s, i)
			out.WriteString(s[i : j+1])
			i = j + 1
			continue
		}
		if c == '(' || c == '[' || c == '{' {
			j := matchClose(s, i)
			if j < 0 {
				out.WriteString(s[i:])
				break
			}
			inner := s[i+1 : j]
			if c == '[' && strings.TrimSpace(inner) == "*" {
				// x[*]: wrap the preceding operand; handled after the fact by marker
				out.WriteString(".__ALL__")
				i = j + 1
				continue
			}
			parts := splitTop(inner, ',')
			for k := range parts {
				parts[k] = rewriteSpec(parts[k])
			}
			out.WriteByte(c)
			out.WriteString(strings.Join(parts, ","))
			out.WriteByte(s[j])
			i = j + 1
			continue
		}
		out.WriteByte(c)
		i++
	}
	t := out.String()
	if idx := topIndex(t, "==>"); idx >= 0 {
		return "__imp(" + t[:idx] + ", " + rewriteTopImp(t[idx+3:]) + ")"
	}
	return t
}
func rewriteTopImp(t string) string {
	if idx := topIndex(t, "==>"); idx >= 0 {
		return "__imp(" + t[:idx] + ", " + rewriteTopImp(t[idx+3:]) + ")"
	}
	return t
}

func parseSpecExpr(text string) (ast.Expr, error) {
	e, err := parser.ParseExpr(rewriteSpec(text))
	if err != nil {
		return nil, fmt.Errorf("cannot parse %q: %v", text, err)
	}
	return e, nil
}

func parseModItems(text string) ([]ModItem, error) {
	var items []ModItem
	for _, p := range splitTop(text, ',') {
		p = strings.TrimSpace(p)
		if p == "" {
			continue
		}
		switch {
		case p == "nothing":
			items = append(items, ModItem{Kind: "nothing", Text: p})
		case p == "everything":
			items = append(items, ModItem{Kind: "everything", Text: p})
		case strings.HasPrefix(p, "ghost "):
			items = append(items, ModItem{Kind: "ghost", Name: strings.TrimSpace(p[6:]), Text: p})
		case strings.HasPrefix(p, "region(") && strings.HasSuffix(p, ")"):
			e, err := parseSpecExpr(p[7 : len(p)-1])
			if err != nil {
				return nil, err
			}
			items = append(items, ModItem{Kind: "region", Expr: e, Text: p})
		default:
			e, err := parseSpecExpr(p)
			if err != nil {
				return nil, err
			}
			it := ModItem{Expr: e, Text: p}
			switch x := e.(type) {
			case *ast.StarExpr:
				it.Kind = "deref"
				it.Expr = x.X
			case *ast.SelectorExpr:
				if x.Sel.Name == "__ALL__" {
					it.Kind = "all"
					it.Expr = x.X
				} else {
					it.Kind = "field"
				}
			default:
				return nil, fmt.Errorf("bad modifies item %q", p)
			}
			items = append(items, it)
		}
	}
	return items, nil
}

type cline struct {
	text string
	file string
	line int
}

func readContractLines(file string) ([]cline, error) {
	data, err := os.ReadFile(file)
	if err != nil {
		return nil, err
	}
	var out []cline
	for n, l := range strings.Split(string(data), "\n") {
		t := strings.TrimSpace(l)
		if !strings.HasPrefix(t, "//@") {
			continue
		}
		t = strings.TrimPrefix(t, "//@")
		if strings.TrimSpace(t) == "" || strings.HasPrefix(strings.TrimSpace(t), "#") {
			continue
		}
		tt := strings.TrimSpace(t)
		if strings.HasPrefix(tt, "|") && len(out) > 0 {
			out[len(out)-1].text += " " + strings.TrimSpace(tt[1:])
			continue
		}
		out = append(out, cline{strings.TrimRight(t, " \t"), file, n + 1})
	}
	return out, nil
}

func packagePathOfFile(file string) string {
	data, _ := os.ReadFile(file)
	for _, l := range strings.Split(string(data), "\n") {
		if strings.HasPrefix(l, "//@ package ") {
			return strings.TrimSpace(strings.TrimPrefix(l, "//@ package "))
		}
	}
	return ""
}

func newContractSet() *ContractSet {
	return &ContractSet{Funcs: map[string]*FuncContract{}, Ifaces: map[string]*FuncContract{}, Externs: map[string]*FuncContract{}, Specs: map[string]*SpecFunc{}, Scan: map[string]int{}}
}

func (cs *ContractSet) parseFile(file, pkgPath string) error {
	lines, err := readContractLines(file)
	if err != nil {
		return err
	}
	cs.Sources = append(cs.Sources, file)
	var cur *FuncContract
	var curEv *Event
	var curSite *Site
	var curImm *Immutable
	reset := func() { cur, curEv, curSite, curImm = nil, nil, nil, nil }
	mk := func(kind, text string, l cline) (*Clause, error) {
		body, tags := splitTags(text)
		c := &Clause{Kind: kind, Text: body, Tags: tags, File: l.file, Line: l.line}
		if m := labelRe.FindStringSubmatch(body); m != nil && kind != "let" && kind != "do" {
			c.Label = m[1]
			body = body[len(m[0]):]
			c.Text = body
		}
		if kind == "let" || kind == "do" {
			i := strings.Index(body, "=")
			if i < 0 {
				return nil, fmt.Errorf("%s:%d: %s needs name = expr", l.file, l.line, kind)
			}
			c.Name = strings.TrimSpace(body[:i])
			body = strings.TrimSpace(body[i+1:])
			c.Text = body
		}
		if kind == "modifies" {
			items, err := parseModItems(body)
			if err != nil {
				return nil, fmt.Errorf("%s:%d: %v", l.file, l.line, err)
			}
			c.Items = items
			return c, nil
		}
		e, err := parseSpecExpr(body)
		if err != nil {
			return nil, fmt.Errorf("%s:%d: %v", l.file, l.line, err)
		}
		c.Expr = e
		return c, nil
	}
	for _, l := range lines {
		t := strings.TrimSpace(l.text)
		word := t
		rest := ""
		if i := strings.IndexAny(t, " \t"); i >= 0 {
			word, rest = t[:i], strings.TrimSpace(t[i+1:])
		}
		if strings.Contains(t, "assume") {
			cs.Scan["assume"]++
		}
		switch word {
		case "package":
			continue
		case "funcalt":
			// an alternative case of functions that already have a contract: funcalt <case-name> <keys...>
			reset()
			f := strings.Fields(rest)
			if len(f) < 2 {
				return fmt.Errorf("%s:%d: funcalt <case> <keys>", l.file, l.line)
			}
			alt := &FuncContract{Kind: "func", PkgPath: pkgPath, File: l.file, Line: l.line, CaseName: f[0], Key: f[1], Shared: f[1:]}
			for _, k := range f[1:] {
				prim, ok := cs.Funcs[pkgPath+" "+k]
				if !ok {
					return fmt.Errorf("%s:%d: funcalt for %s without a primary contract", l.file, l.line, k)
				}
				prim.Alts = append(prim.Alts, alt)
			}
			cur = alt
			cs.order = append(cs.order, alt)
		case "func", "iface", "extern", "fnfield":
			reset()
			fc := &FuncContract{Kind: word, PkgPath: pkgPath, File: l.file, Line: l.line}
			key := rest
			if i := strings.Index(rest, "("); word != "func" && i > 0 && strings.HasSuffix(rest, ")") && !strings.HasPrefix(rest, "(") {
				key = strings.TrimSpace(rest[:i])
				for _, p := range strings.Split(rest[i+1:len(rest)-1], ",") {
					fc.ParamNames = append(fc.ParamNames, strings.TrimSpace(p))
				}
			} else if word == "extern" && strings.HasPrefix(rest, "(") {
				// (reflect.Value).Len(v, i)
				j := strings.LastIndex(rest, "(")
				if j > 0 && strings.HasSuffix(rest, ")") && j > strings.Index(rest, ")") {
					key = strings.TrimSpace(rest[:j])
					for _, p := range strings.Split(rest[j+1:len(rest)-1], ",") {
						if strings.TrimSpace(p) != "" {
							fc.ParamNames = append(fc.ParamNames, strings.TrimSpace(p))
						}
					}
				}
			}
			fc.Key = key
			cur = fc
			switch word {
			case "func":
				// several functions may share one contract: "func (*DB).Model (*DB).Table"
				ks := strings.Fields(key)
				if len(ks) > 1 && !strings.Contains(key, ", ") {
					fc.Key = ks[0]
					fc.Shared = ks
				} else {
					ks = []string{key}
				}
				for _, k := range ks {
					if _, dup := cs.Funcs[pkgPath+" "+k]; dup {
						return fmt.Errorf("%s:%d: duplicate contract for %s", l.file, l.line, k)
					}
					cs.Funcs[pkgPath+" "+k] = fc
				}
			case "iface":
				// "database/sql/driver.Valuer.Value": explicit package path
				if n := strings.Count(key, "."); n >= 2 {
					j := strings.LastIndex(key, ".")
					i := strings.LastIndex(key[:j], ".")
					fc.PkgPath = key[:i]
					fc.Key = key[i+1:]
					key = fc.Key
				}
				cs.Ifaces[fc.PkgPath+" "+key] = fc
			case "extern":
				cs.Externs[key] = fc
			case "fnfield":
				cs.Externs["fnfield "+key] = fc
			}
			cs.order = append(cs.order, fc)
		case "spec":
			reset()
			i := strings.Index(rest, "(")
			j := strings.Index(rest, ")")
			k := strings.Index(rest, "=")
			if i < 0 || j < i || k < j {
				return fmt.Errorf("%s:%d: bad spec", l.file, l.line)
			}
			sf := &SpecFunc{Name: strings.TrimSpace(rest[:i]), Text: strings.TrimSpace(rest[k+1:])}
			for _, p := range strings.Split(rest[i+1:j], ",") {
				if strings.TrimSpace(p) != "" {
					sf.Params = append(sf.Params, strings.TrimSpace(p))
				}
			}
			e, err := parseSpecExpr(sf.Text)
			if err != nil {
				return fmt.Errorf("%s:%d: %v", l.file, l.line, err)
			}
			sf.Body = e
			cs.Specs[sf.Name] = sf
		case "ghost":
			reset()
			cs.Ghosts = append(cs.Ghosts, strings.Fields(rest)...)
		case "constant":
			reset()
			if cs.Constants == nil {
				cs.Constants = map[string][]string{}
			}
			cs.Constants[pkgPath] = append(cs.Constants[pkgPath], strings.Fields(rest)...)
		case "global":
			reset()
			c, err := mk("global", rest, l)
			if err != nil {
				return err
			}
			if cs.GlobalPkg == nil {
				cs.GlobalPkg = map[*Clause]string{}
			}
			cs.Globals = append(cs.Globals, c)
			cs.GlobalPkg[c] = pkgPath
		case "event":
			reset()
			f := strings.Fields(rest)
			if len(f) < 1 {
				return fmt.Errorf("%s:%d: bad event", l.file, l.line)
			}
			curEv = &Event{Kind: f[0], Key: strings.Join(f[1:], " "), PkgPath: pkgPath, File: l.file, Line: l.line}
			cs.Events = append(cs.Events, curEv)
		case "site":
			reset()
			curSite = &Site{Name: rest, PkgPath: pkgPath, File: l.file, Line: l.line}
			cs.Sites = append(cs.Sites, curSite)
		case "immutable":
			reset()
			curImm = &Immutable{Field: rest, PkgPath: pkgPath, File: l.file, Line: l.line}
			cs.Immutables = append(cs.Immutables, curImm)
		default:
			switch {
			case cur != nil:
				switch word {
				case "tags":
					cur.Tags = append(cur.Tags, strings.Fields(strings.ReplaceAll(rest, ",", " "))...)
				case "requires", "ensures", "ensures-on-panic", "let", "modifies", "cover", "assumes", "when":
					c, err := mk(word, rest, l)
					if err != nil {
						return err
					}
					switch word {
					case "when":
						cur.When = c
					case "assumes":
						cur.Assumes = append(cur.Assumes, c)
						cs.Scan["assumes"]++
					case "requires":
						cur.Requires = append(cur.Requires, c)
					case "ensures":
						cur.Ensures = append(cur.Ensures, c)
					case "ensures-on-panic":
						cur.EnsPanic = append(cur.EnsPanic, c)
					case "let":
						cur.Lets = append(cur.Lets, c)
					case "modifies":
						cur.Modifies = append(cur.Modifies, c)
					case "cover":
						cur.Covers = append(cur.Covers, c)
					}
				case "loop":
					// loop <key> invariant <expr> | loop <key> modifies <items>
					var key string
					r := rest
					if strings.HasPrefix(r, "\"") {
						j := strings.Index(r[1:], "\"")
						key = r[1 : j+1]
						r = strings.TrimSpace(r[j+2:])
					} else {
						f := strings.SplitN(r, " ", 2)
						key = f[0]
						if len(f) > 1 {
							r = strings.TrimSpace(f[1])
						} else {
							r = ""
						}
					}
					var lc *LoopContract
					for _, x := range cur.Loops {
						if x.Key == key {
							lc = x
						}
					}
					if lc == nil {
						lc = &LoopContract{Key: key}
						cur.Loops = append(cur.Loops, lc)
					}
					f := strings.SplitN(r, " ", 2)
					if len(f) < 2 {
						return fmt.Errorf("%s:%d: bad loop clause", l.file, l.line)
					}
					kind := f[0]
					if kind == "exit-do" || kind == "entry-do" {
						kind = "do"
					}
					if kind == "entry-assert" {
						kind = "invariant"
					}
					c, err := mk(kind, strings.TrimSpace(f[1]), l)
					if err != nil {
						return err
					}
					if f[0] == "invariant" {
						lc.Invariants = append(lc.Invariants, c)
					} else if f[0] == "modifies" {
						lc.Modifies = append(lc.Modifies, c)
					} else if f[0] == "exit-do" {
						lc.ExitDo = append(lc.ExitDo, c)
					} else if f[0] == "entry-do" {
						lc.EntryDo = append(lc.EntryDo, c)
					} else if f[0] == "entry-assert" {
						lc.EntryAsserts = append(lc.EntryAsserts, c)
					} else {
						return fmt.Errorf("%s:%d: bad loop clause kind %s", l.file, l.line, f[0])
					}
				case "may-panic":
					cur.MayPanic = append(cur.MayPanic, strings.Fields(rest)...)
				case "trusted":
					cur.Trusted = rest
					if cur.Trusted == "" {
						cur.Trusted = "unspecified"
					}
					cs.Scan["trusted"]++
				case "pure":
					cur.Pure = true
				case "functional":
					cur.Pure = true
					cur.Functional = true
				case "inline":
					cur.Inline = true
				case "inline-call":
					cur.InlineCalls = append(cur.InlineCalls, strings.Fields(rest)...)
				case "abstract":
					cur.Abstract = rest
					if rest == "" {
						cur.Abstract = "unspecified"
					}
					cs.Scan["abstract"]++
				case "callback-loop":
					cur.CallbackLoop = true
				case "skip-impl":
					f := strings.SplitN(rest, " ", 2)
					if cur.SkipImpl == nil {
						cur.SkipImpl = map[string]string{}
					}
					reason := "unspecified"
					if len(f) > 1 {
						reason = strings.TrimSpace(f[1])
					}
					cur.SkipImpl[f[0]] = reason
					cs.Scan["skip-impl"]++
				case "allocates":
					cur.Allocates = true
				default:
					return fmt.Errorf("%s:%d: unknown clause %q", l.file, l.line, word)
				}
			case curEv != nil:
				switch word {
				case "requires", "do":
					c, err := mk(word, rest, l)
					if err != nil {
						return err
					}
					if word == "do" {
						curEv.Do = append(curEv.Do, c)
					} else {
						curEv.Requires = append(curEv.Requires, c)
					}
				case "blocking":
					curEv.Blocking = true
				case "interference":
					curEv.Interference = true
				case "in":
					curEv.In = append(curEv.In, strings.Fields(rest)...)
				default:
					return fmt.Errorf("%s:%d: unknown event clause %q", l.file, l.line, word)
				}
			case curSite != nil:
				switch word {
				case "match":
					for _, m := range strings.Split(rest, "|") {
						curSite.Match = append(curSite.Match, strings.TrimSpace(m))
					}
				case "in":
					curSite.In = append(curSite.In, strings.Fields(rest)...)
				case "not-in":
					curSite.NotIn = append(curSite.NotIn, strings.Fields(rest)...)
				case "tags":
					curSite.Tags = append(curSite.Tags, strings.Fields(strings.ReplaceAll(rest, ",", " "))...)
				case "min-sites":
					fmt.Sscan(rest, &curSite.MinSites)
					if strings.TrimSpace(rest) == "0" {
						curSite.MayBeEmpty = true // a sweep ("every such instruction ..."): holds when there is none
					}
				case "assert", "let", "entry", "assume-after", "cover":
					kind := word
					if kind == "cover" {
						kind = "assert"
					}
					c, err := mk(kind, rest, l)
					if err != nil {
						return err
					}
					if word == "cover" {
						curSite.Covers = append(curSite.Covers, c)
					} else if word == "assume-after" {
						curSite.AssumeAfter = append(curSite.AssumeAfter, c)
						cs.Scan["assume"]++
					} else if word == "let" {
						curSite.Lets = append(curSite.Lets, c)
					} else if word == "entry" {
						curSite.Entry = append(curSite.Entry, c)
					} else {
						curSite.Asserts = append(curSite.Asserts, c)
					}
				default:
					return fmt.Errorf("%s:%d: unknown site clause %q", l.file, l.line, word)
				}
			case curImm != nil:
				switch word {
				case "writers":
					curImm.Writers = append(curImm.Writers, strings.Fields(rest)...)
				case "tags":
					curImm.Tags = append(curImm.Tags, strings.Fields(strings.ReplaceAll(rest, ",", " "))...)
				default:
					return fmt.Errorf("%s:%d: unknown immutable clause %q", l.file, l.line, word)
				}
			default:
				return fmt.Errorf("%s:%d: clause %q outside any item", l.file, l.line, word)
			}
		}
	}
	return nil
}

// pkgDirs maps import paths of the packages under contract to directories below /repo.
var pkgDirs = map[string]string{
	"gorm.io/gorm":           "",
	"gorm.io/gorm/clause":    "clause",
	"gorm.io/gorm/callbacks": "callbacks",
	"gorm.io/gorm/schema":    "schema",
	"gorm.io/gorm/utils":     "utils",
	"gorm.io/gorm/migrator":  "migrator",
}

const contractFileName = "zz_contracts_verif.go"

// loadContracts reads the contract files: the /repo copy when present, the mirror otherwise.
func loadContracts(repo, verif string) (*ContractSet, map[string]string, error) {
	cs := newContractSet()
	used := map[string]string{}
	var paths []string
	for p := range pkgDirs {
		paths = append(paths, p)
	}
	sort.Strings(paths)
	for _, p := range paths {
		repoFile := filepath.Join(repo, pkgDirs[p], contractFileName)
		mirror := filepath.Join(verif, "contracts", strings.ReplaceAll(strings.TrimPrefix(p, "gorm.io/"), "/", "_")+".go")
		file := ""
		if _, err := os.Stat(repoFile); err == nil {
			file = repoFile
			used[p] = "repo"
			if a, e1 := os.ReadFile(repoFile); e1 == nil {
				if b, e2 := os.ReadFile(mirror); e2 == nil && string(a) != string(b) {
					return nil, nil, fmt.Errorf("%s differs from its mirror %s: run /verif/tools/sync_contracts.sh", repoFile, mirror)
				}
			}
		} else if _, err := os.Stat(mirror); err == nil {
			file = mirror
			used[p] = "mirror"
		} else {
			continue
		}
		if err := cs.parseFile(file, p); err != nil {
			return nil, nil, err
		}
	}
	ext := filepath.Join(verif, "contracts", "external.spec")
	if _, err := os.Stat(ext); err == nil {
		if err := cs.parseFile(ext, ""); err != nil {
			return nil, nil, err
		}
	}
	return cs, used, nil
}
