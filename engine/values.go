package main

import (
	"os"
	"fmt"
	"go/types"
	"strings"

	"golang.org/x/tools/go/ssa"
)

// ---------- symbolic values ----------
// Every leaf is an SMT Int term. Bools are 0/1, strings are abstract value ids,
// floats/funcs/chans opaque ids.
type Val interface{}
type IntV struct{ t string }
type PtrV struct{ ref, idx string }
type SliceV struct{ ref, off, ln, cp string }
type IfaceV struct{ tag, box string }
type MapV struct{ ref string }
type StructV struct{ f []Val }
type TupleV struct{ f []Val }
type ClosureV struct {
	fn   *ssa.Function
	bind []Val
	id   string
}

const memSort = "(Array Int (Array Int Int))"

type unsupported struct{ msg string }

func unsupp(format string, a ...interface{}) { panic(unsupported{fmt.Sprintf(format, a...)}) }

// leaf kinds: 'i' -> MI (scalars), 'r' -> MR (object references)
func layout(t types.Type) []byte {
	switch u := t.Underlying().(type) {
	case *types.Basic:
		if u.Kind() == types.UnsafePointer {
			return []byte{'i'}
		}
		if u.Info()&types.IsComplex != 0 {
			return []byte{'i', 'i'}
		}
		return []byte{'i'}
	case *types.Signature:
		return []byte{'i'}
	case *types.Chan:
		return []byte{'r'}
	case *types.Map:
		return []byte{'r'}
	case *types.Pointer:
		return []byte{'r', 'i'}
	case *types.Slice:
		return []byte{'r', 'i', 'i', 'i'}
	case *types.Interface:
		return []byte{'i', 'i'}
	case *types.Struct:
		var out []byte
		for i := 0; i < u.NumFields(); i++ {
			out = append(out, layout(u.Field(i).Type())...)
		}
		return out
	case *types.Array:
		if u.Len() > 64 {
			return []byte{'i'} // opaque: large arrays are never indexed in the verified subset
		}
		var out []byte
		el := layout(u.Elem())
		for i := int64(0); i < u.Len(); i++ {
			out = append(out, el...)
		}
		return out
	case *types.Tuple:
		var out []byte
		for i := 0; i < u.Len(); i++ {
			out = append(out, layout(u.At(i).Type())...)
		}
		return out
	case *types.TypeParam:
		unsupp("type parameter %v", t)
	}
	unsupp("layout: %T %v", t.Underlying(), t)
	return nil
}

func width(t types.Type) int { return len(layout(t)) }

func fieldOffset(st *types.Struct, field int) int {
	off := 0
	for k := 0; k < field; k++ {
		off += width(st.Field(k).Type())
	}
	return off
}

func flatten(x Val) []string {
	switch a := x.(type) {
	case IntV:
		return []string{a.t}
	case PtrV:
		return []string{a.ref, a.idx}
	case SliceV:
		return []string{a.ref, a.off, a.ln, a.cp}
	case IfaceV:
		return []string{a.tag, a.box}
	case MapV:
		return []string{a.ref}
	case ClosureV:
		return []string{a.id}
	case StructV:
		var out []string
		for _, f := range a.f {
			out = append(out, flatten(f)...)
		}
		return out
	case TupleV:
		var out []string
		for _, f := range a.f {
			out = append(out, flatten(f)...)
		}
		return out
	}
	panic(fmt.Sprintf("flatten %T", x))
}

// unflatten builds a Val of type t from leaves.
func unflatten(t types.Type, leaves []string) (Val, []string) {
	switch u := t.Underlying().(type) {
	case *types.Pointer:
		return PtrV{leaves[0], leaves[1]}, leaves[2:]
	case *types.Slice:
		return SliceV{leaves[0], leaves[1], leaves[2], leaves[3]}, leaves[4:]
	case *types.Interface:
		return IfaceV{leaves[0], leaves[1]}, leaves[2:]
	case *types.Map:
		return MapV{leaves[0]}, leaves[1:]
	case *types.Struct:
		sv := StructV{}
		rest := leaves
		for i := 0; i < u.NumFields(); i++ {
			var f Val
			f, rest = unflatten(u.Field(i).Type(), rest)
			sv.f = append(sv.f, f)
		}
		return sv, rest
	case *types.Array:
		if u.Len() > 64 {
			return IntV{leaves[0]}, leaves[1:]
		}
		sv := StructV{}
		rest := leaves
		for i := int64(0); i < u.Len(); i++ {
			var f Val
			f, rest = unflatten(u.Elem(), rest)
			sv.f = append(sv.f, f)
		}
		return sv, rest
	case *types.Tuple:
		tv := TupleV{}
		rest := leaves
		for i := 0; i < u.Len(); i++ {
			var f Val
			f, rest = unflatten(u.At(i).Type(), rest)
			tv.f = append(tv.f, f)
		}
		return tv, rest
	case *types.Basic:
		if u.Info()&types.IsComplex != 0 {
			return StructV{[]Val{IntV{leaves[0]}, IntV{leaves[1]}}}, leaves[2:]
		}
		return IntV{leaves[0]}, leaves[1:]
	default:
		return IntV{leaves[0]}, leaves[1:]
	}
}

func zeroVal(t types.Type) Val {
	lay := layout(t)
	z := make([]string, len(lay))
	for i := range z {
		z[i] = "0"
	}
	r, _ := unflatten(t, z)
	return r
}

// ---------- small SMT helpers ----------
func add(a string, k int) string {
	if k == 0 {
		return a
	}
	if a == "0" {
		return fmt.Sprint(k)
	}
	return fmt.Sprintf("(+ %s %d)", a, k)
}
func b2i(c string) string {
	switch c {
	case "true":
		return "1"
	case "false":
		return "0"
	}
	return "(ite " + c + " 1 0)"
}
func i2b(t string) string {
	switch t {
	case "1":
		return "true"
	case "0":
		return "false"
	}
	if strings.HasPrefix(t, "(ite ") && strings.HasSuffix(t, " 1 0)") {
		return t[5 : len(t)-5]
	}
	return "(= " + t + " 1)"
}
func and(xs ...string) string {
	var out []string
	for _, x := range xs {
		if x == "true" || x == "" {
			continue
		}
		if x == "false" {
			return "false"
		}
		out = append(out, x)
	}
	if len(out) == 0 {
		return "true"
	}
	if len(out) == 1 {
		return out[0]
	}
	return "(and " + strings.Join(out, " ") + ")"
}
func or(xs ...string) string {
	var out []string
	for _, x := range xs {
		if x == "false" || x == "" {
			continue
		}
		if x == "true" {
			return "true"
		}
		out = append(out, x)
	}
	if len(out) == 0 {
		return "false"
	}
	if len(out) == 1 {
		return out[0]
	}
	return "(or " + strings.Join(out, " ") + ")"
}
func not(x string) string {
	switch x {
	case "true":
		return "false"
	case "false":
		return "true"
	}
	if strings.HasPrefix(x, "(not ") {
		return x[5 : len(x)-1]
	}
	return "(not " + x + ")"
}
func implies(a, b string) string {
	if a == "true" {
		return b
	}
	if b == "true" || a == "false" {
		return "true"
	}
	return "(=> " + a + " " + b + ")"
}
func ite(c, a, b string) string {
	if a == b {
		return a
	}
	if c == "true" {
		return a
	}
	if c == "false" {
		return b
	}
	return "(ite " + c + " " + a + " " + b + ")"
}
func eq(a, b string) string {
	if a == b {
		return "true"
	}
	return "(= " + a + " " + b + ")"
}
func num(n int64) string {
	if n < 0 {
		return fmt.Sprintf("(- %d)", -n)
	}
	return fmt.Sprint(n)
}

func iteVal(c string, a, b Val) Val {
	la, lb := flatten(a), flatten(b)
	if len(la) != len(lb) {
		unsupp("iteVal shape mismatch")
	}
	out := make([]string, len(la))
	for i := range la {
		out[i] = ite(c, la[i], lb[i])
	}
	return rebuildLike(a, out)
}

// rebuildLike builds a value with the shape of proto from leaves.
func rebuildLike(proto Val, leaves []string) Val {
	v, _ := rebuild(proto, leaves)
	return v
}
func rebuild(proto Val, l []string) (Val, []string) {
	switch p := proto.(type) {
	case IntV:
		return IntV{l[0]}, l[1:]
	case PtrV:
		return PtrV{l[0], l[1]}, l[2:]
	case SliceV:
		return SliceV{l[0], l[1], l[2], l[3]}, l[4:]
	case IfaceV:
		return IfaceV{l[0], l[1]}, l[2:]
	case MapV:
		return MapV{l[0]}, l[1:]
	case ClosureV:
		return IntV{l[0]}, l[1:]
	case StructV:
		o := StructV{}
		for _, f := range p.f {
			var x Val
			x, l = rebuild(f, l)
			o.f = append(o.f, x)
		}
		return o, l
	case TupleV:
		o := TupleV{}
		for _, f := range p.f {
			var x Val
			x, l = rebuild(f, l)
			o.f = append(o.f, x)
		}
		return o, l
	}
	panic(fmt.Sprintf("rebuild %T", proto))
}

func eqLeaves(a, b Val) string {
	la, lb := flatten(a), flatten(b)
	if len(la) != len(lb) {
		if os.Getenv("GVC_DEBUG") != "" {
			fmt.Fprintf(os.Stderr, "eqLeaves: shapes differ: %T %v vs %T %v\n", a, la, b, lb)
		}
		return "false"
	}
	var cs []string
	for i := range la {
		cs = append(cs, eq(la[i], lb[i]))
	}
	return and(cs...)
}
