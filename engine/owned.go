package main

import (
	"fmt"
	"go/token"
	"go/types"

	"golang.org/x/tools/go/ssa"
)

// Ownership of call results (a syntactic lemma, re-established on the current tree at every run).
//
// ownedResult(fn, k): every value fn returns in position k is nil or an object made inside fn (make(map),
// make([]T), new/&T{}) to which fn keeps no other reference: the object is only read, updated in place,
// held in local variables that do not escape (closures called in place may capture them) and returned.
//
// confinedUse(v): the caller only reads through v (lookup, range, len) or returns it.
//
// When both hold the object is unreachable from anything a later callee can touch, so it keeps its
// contents across calls with unknown effects (it joins State.kept, like a non-escaping local).

func (e *Engine) ownedResult(fn *ssa.Function, k int) bool {
	key := fmt.Sprintf("%p/%d", fn, k)
	if v, ok := e.ownCache[key]; ok {
		return v
	}
	if e.ownCache == nil {
		e.ownCache = map[string]bool{}
	}
	e.ownCache[key] = false // recursion guard
	r := e.ownedResult1(fn, k)
	e.ownCache[key] = r
	return r
}

func (e *Engine) ownedResult1(fn *ssa.Function, k int) bool {
	if len(fn.Blocks) == 0 {
		return false
	}
	origins := map[ssa.Value]bool{}
	seen := map[ssa.Value]bool{}
	var trace func(v ssa.Value) bool
	trace = func(v ssa.Value) bool {
		if seen[v] {
			return true
		}
		seen[v] = true
		switch x := v.(type) {
		case *ssa.MakeMap, *ssa.MakeSlice:
			origins[v] = true
			return true
		case *ssa.Alloc:
			if x.Heap {
				origins[v] = true
				return true
			}
			return false
		case *ssa.Const:
			return x.IsNil()
		case *ssa.Phi:
			for _, ed := range x.Edges {
				if !trace(ed) {
					return false
				}
			}
			return true
		case *ssa.UnOp:
			if x.Op != token.MUL {
				return false
			}
			cell, ok := x.X.(*ssa.Alloc)
			if !ok || e.escapes(cell) {
				return false
			}
			// every value ever stored into the cell (in fn; closures must not store to it)
			if !e.cellStoresOnlyIn(cell, fn) {
				return false
			}
			for _, u := range *cell.Referrers() {
				if s, ok := u.(*ssa.Store); ok && s.Addr == cell {
					if !trace(s.Val) {
						return false
					}
				}
			}
			return true
		}
		return false
	}
	nret := 0
	for _, b := range fn.Blocks {
		for _, ins := range b.Instrs {
			if ret, ok := ins.(*ssa.Return); ok {
				if k >= len(ret.Results) {
					return false
				}
				nret++
				if !trace(ret.Results[k]) {
					return false
				}
			}
		}
	}
	if nret == 0 {
		return false
	}
	for o := range origins {
		if !e.confined(o, true, map[ssa.Value]bool{}) {
			return false
		}
	}
	return true
}

// cellStoresOnlyIn: closures that capture the cell never assign to it.
func (e *Engine) cellStoresOnlyIn(cell *ssa.Alloc, fn *ssa.Function) bool {
	for _, u := range *cell.Referrers() {
		mc, ok := u.(*ssa.MakeClosure)
		if !ok {
			continue
		}
		cf := mc.Fn.(*ssa.Function)
		for i, b := range mc.Bindings {
			if b != cell {
				continue
			}
			fv := cf.FreeVars[i]
			for _, fu := range *fv.Referrers() {
				switch x := fu.(type) {
				case *ssa.Store:
					if x.Addr == fv {
						return false
					}
				case *ssa.UnOp, *ssa.DebugRef:
				default:
					return false // re-captured or address passed on
				}
			}
		}
	}
	return true
}

// confined: every use of v (and of its aliases through non-escaping cells, phis and re-slicing) keeps
// the object inside the function. mayWrite allows in-place updates (the maker may fill its object).
func (e *Engine) confined(v ssa.Value, mayWrite bool, seen map[ssa.Value]bool) bool {
	if seen[v] {
		return true
	}
	seen[v] = true
	refs := v.Referrers()
	if refs == nil {
		return false
	}
	for _, u := range *refs {
		switch x := u.(type) {
		case *ssa.DebugRef, *ssa.Return:
		case *ssa.Lookup:
			if x.X != v {
				return false
			}
		case *ssa.Range:
		case *ssa.Extract:
			if !e.confined(x, mayWrite, seen) {
				return false
			}
		case *ssa.MapUpdate:
			if x.Map != v || x.Key == v || x.Value == v || !mayWrite {
				return false
			}
		case *ssa.Phi:
			if !e.confined(x, mayWrite, seen) {
				return false
			}
		case *ssa.IndexAddr:
			// element addresses: loads always, stores only for the maker
			for _, iu := range *x.Referrers() {
				switch y := iu.(type) {
				case *ssa.UnOp, *ssa.DebugRef:
				case *ssa.Store:
					if y.Addr != x || y.Val == v || !mayWrite {
						return false
					}
				default:
					return false
				}
			}
		case *ssa.FieldAddr:
			for _, iu := range *x.Referrers() {
				switch y := iu.(type) {
				case *ssa.UnOp, *ssa.DebugRef:
				case *ssa.Store:
					if y.Addr != x || y.Val == v || !mayWrite {
						return false
					}
				default:
					return false
				}
			}
		case *ssa.UnOp:
			// a load through a pointer we own (struct value copy): fine
			if x.Op != token.MUL {
				return false
			}
		case *ssa.Store:
			if x.Val != v {
				// storing through an owned pointer
				if !mayWrite {
					return false
				}
				continue
			}
			cell, ok := x.Addr.(*ssa.Alloc)
			if !ok || e.escapes(cell) {
				return false
			}
			// aliases: loads of the cell here and in the closures that capture it
			for _, cu := range *cell.Referrers() {
				switch y := cu.(type) {
				case *ssa.UnOp:
					if !e.confined(y, mayWrite, seen) {
						return false
					}
				case *ssa.MakeClosure:
					cf := y.Fn.(*ssa.Function)
					for i, b := range y.Bindings {
						if b != cell {
							continue
						}
						for _, fu := range *cf.FreeVars[i].Referrers() {
							if ld, ok := fu.(*ssa.UnOp); ok {
								if !e.confined(ld, mayWrite, seen) {
									return false
								}
							}
						}
					}
				}
			}
		case *ssa.Call:
			b, ok := x.Call.Value.(*ssa.Builtin)
			if !ok {
				return false
			}
			switch b.Name() {
			case "len", "cap":
			case "delete":
				if !mayWrite || x.Call.Args[0] != v {
					return false
				}
			default:
				return false
			}
		default:
			return false
		}
	}
	return true
}

// ownedKinds: result types for which ownership matters (objects reached by reference).
func refLike(t types.Type) bool {
	switch t.Underlying().(type) {
	case *types.Map, *types.Slice, *types.Pointer:
		return true
	}
	return false
}
