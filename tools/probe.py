#!/usr/bin/env python3
"""probe.py q.smt2 '<smt formula>' [timeout]: replace the goal of a dumped query by the given formula (is it implied by the path?)"""
import sys, subprocess
src=open(sys.argv[1]).read().split('\n')
idx=max(i for i,l in enumerate(src) if l.startswith('(assert (not '))
src[idx]='(assert (not %s))'%sys.argv[2]
src=[l for l in src if not l.startswith('(get-')]
open('/tmp/probe.smt2','w').write('\n'.join(src))
to=sys.argv[3] if len(sys.argv)>3 else '30'
for s in (['z3-new','-T:'+to],['z3','-T:'+to]):
    r=subprocess.run(s+['/tmp/probe.smt2'],capture_output=True,text=True).stdout.split('\n')[0]
    print(s[0],r)
    if r in('sat','unsat'): break
